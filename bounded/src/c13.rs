// C13 bounded stand-in on REAL petgraph: every labelled DAG up to N nodes x every non-empty ordered root selection; one dangling edge.
use crate::Report;
// the real source file is compiled into the harness (create_dependency_graph is pub(crate) in libcnb-package)
#[path = "/repo/libcnb-package/src/dependency_graph.rs"]
#[allow(dead_code, unreachable_pub)]
mod dg;
use dg::{DependencyNode, get_dependencies};
use std::collections::BTreeSet;
use std::convert::Infallible;

#[derive(Debug, Clone)]
struct N { id: u8, deps: Vec<u8> }
impl DependencyNode<u8, Infallible> for N {
    fn id(&self) -> u8 { self.id }
    fn dependencies(&self) -> Result<Vec<u8>, Infallible> { Ok(self.deps.clone()) }
}
fn perms(items: &[u8], k: usize, cur: &mut Vec<u8>, out: &mut Vec<Vec<u8>>) {
    if cur.len() == k { out.push(cur.clone()); return; }
    for &i in items { if !cur.contains(&i) { cur.push(i); perms(items, k, cur, out); cur.pop(); } }
}
pub fn order(thorough: bool) -> Report {
    let maxn = if thorough { 5 } else { 4 };
    let mut r = Report::new(
        "every labelled DAG (all subsets of the n(n-1) directed pairs that are acyclic) on up to N nodes (handed over in id order or in a permuted order) x every non-empty ordered selection of roots: the real create_dependency_graph + get_dependencies (real petgraph) returns exactly roots + transitive dependencies, each once, each after all of its dependencies; a dependency on an unknown id is an error; non-trivial = graphs with at least one edge",
        &format!("N <= {maxn} nodes"),
    );
    for n in 1..=maxn {
        let pairs: Vec<(u8, u8)> = (0..n as u8).flat_map(|i| (0..n as u8).filter(move |j| *j != i).map(move |j| (i, j))).collect();
        for mask in 0u32..(1 << pairs.len()) {
            {
                let mut nodes: Vec<N> = (0..n as u8).map(|i| N { id: i, deps: vec![] }).collect();
                for (b, (i, j)) in pairs.iter().enumerate() { if mask >> b & 1 == 1 { nodes[*i as usize].deps.push(*j); } }
                // keep acyclic graphs only (Kahn)
                let mut indeg = vec![0; n]; for x in &nodes { for d in &x.deps { indeg[*d as usize] += 1; } }
                let mut q: Vec<usize> = (0..n).filter(|i| indeg[*i] == 0).collect(); let mut seen = 0;
                while let Some(x) = q.pop() { seen += 1; for d in &nodes[x].deps { indeg[*d as usize] -= 1; if indeg[*d as usize] == 0 { q.push(*d as usize); } } }
                if seen != n { continue; }
                // the nodes are handed over in a rotated-and-reversed order on odd masks: ids are labels, not positions
                let declared: Vec<N> = if mask % 2 == 1 { let mut v = nodes.clone(); v.reverse(); v.rotate_left(1 % n); v } else { nodes.clone() };
                let graph = match libcnb_package_create(declared.clone()) { Ok(g) => g, Err(e) => { r.violation("create", "create_dependency_graph failed on a complete DAG", format!("{declared:?}"), "Ok".into(), e); continue; } };
                let ids: Vec<u8> = (0..n as u8).collect();
                let mut sels = vec![];
                for k in 1..=n.min(3) { perms(&ids, k, &mut vec![], &mut sels); }
                for sel in sels {
                    r.evaluations += 1;
                    if mask != 0 { r.nontrivial += 1; }
                    let roots: Vec<&N> = sel.iter().map(|i| &nodes[*i as usize]).collect();
                    let got: Vec<u8> = match get_dependencies(&graph, &roots) { Ok(v) => v.iter().map(|x| x.id).collect(), Err(e) => { r.violation("get", "get_dependencies failed", format!("{nodes:?} roots={sel:?}"), "Ok".into(), e.to_string()); continue; } };
                    // expected set: reachable from roots
                    let mut reach = BTreeSet::new(); let mut stack: Vec<u8> = sel.clone();
                    while let Some(x) = stack.pop() { if reach.insert(x) { for d in &nodes[x as usize].deps { stack.push(*d); } } }
                    let set: BTreeSet<u8> = got.iter().cloned().collect();
                    let mut ok = set == reach && got.len() == set.len();
                    for (pos, x) in got.iter().enumerate() { for d in &nodes[*x as usize].deps { if !got[..pos].contains(d) { ok = false; } } }
                    if !ok { r.violation("build_order", "order is not exactly roots + transitive dependencies, each once, dependencies first", format!("nodes (in declaration order)={declared:?} roots={sel:?}"), format!("set {reach:?}, deps first"), format!("{got:?}")); }
                }
            }
        }
        // dangling dependency
        r.evaluations += 1; r.nontrivial += 1;
        let mut nodes: Vec<N> = (0..n as u8).map(|i| N { id: i, deps: vec![] }).collect();
        nodes[0].deps.push(99);
        if libcnb_package_create(nodes.clone()).is_ok() { r.violation("missing_dependency", "dependency on an unknown id was not an error", format!("{nodes:?}"), "Err(MissingDependency)".into(), "Ok".into()); }
    }
    r.samples.push("nodes 0,1,2 with 2->1, 2->0, 1->0; roots [2] -> [0,1,2]".into());
    r
}
fn libcnb_package_create(nodes: Vec<N>) -> Result<petgraph_graph<N>, String> {
    dg::create_dependency_graph(nodes).map_err(|e| e.to_string())
}
#[allow(non_camel_case_types)]
type petgraph_graph<T> = petgraph::Graph<T, ()>;

// C13 bounded stand-in, workspace level: the PUBLIC libcnb-package API on generated workspaces of composite buildpacks whose package.toml
// mixes libcnb: dependencies with foreign URIs in every position.
pub fn workspace(thorough: bool) -> Report {
    use libcnb_package::buildpack_dependency_graph::build_libcnb_buildpacks_dependency_graph;
    use libcnb_package::dependency_graph::get_dependencies as gd;
    use std::fs;
    let n = if thorough { 4usize } else { 3 };
    let mut r = Report::new(
        "every labelled DAG on N composite buildpacks written as a real workspace (buildpack.toml + package.toml) x 5 placements of foreign dependencies (none, docker:// first, relative path first, one between every two libcnb: entries, last): build_libcnb_buildpacks_dependency_graph yields one node per buildpack and exactly the declared libcnb: edges, get_dependencies on it returns exactly roots + transitive dependencies, dependencies first, for every ordered selection of up to 2 roots; a libcnb: reference to an unknown id is an error; non-trivial = graphs with at least one edge; plus: a libcnb: dependency with an invalid id (libcnb:demo_b, libcnb:, libcnb:app) is an error; a buildpack directory that is a symbolic link to a directory outside the workspace is found",
        &format!("N = {n} buildpacks"),
    );
    let pairs: Vec<(usize, usize)> = (0..n).flat_map(|i| (0..n).filter(move |j| *j != i).map(move |j| (i, j))).collect();
    for mask in 0u32..(1 << pairs.len()) {
        let mut deps: Vec<Vec<usize>> = vec![vec![]; n];
        for (b, (i, j)) in pairs.iter().enumerate() { if mask >> b & 1 == 1 { deps[*i].push(*j); } }
        let mut indeg = vec![0; n]; for d in &deps { for x in d { indeg[*x] += 1; } }
        let mut q: Vec<usize> = (0..n).filter(|i| indeg[*i] == 0).collect(); let mut seen = 0;
        while let Some(x) = q.pop() { seen += 1; for d in &deps[x] { indeg[*d] -= 1; if indeg[*d] == 0 { q.push(*d); } } }
        if seen != n { continue; }
        for placement in 0..5 {
            if mask == 0 && placement > 1 { continue; }
            r.evaluations += 1; if mask != 0 { r.nontrivial += 1; }
            let t = tempfile::tempdir().unwrap(); let root = t.path();
            for i in 0..n {
                let d = root.join(format!("buildpacks/bp{i}")); fs::create_dir_all(&d).unwrap();
                fs::write(d.join("buildpack.toml"), format!("api = \"0.10\"\n[buildpack]\nid = \"demo/bp{i}\"\nversion = \"0.0.1\"\n[[order]]\n[[order.group]]\nid = \"x/y\"\nversion = \"1.0.0\"\n")).unwrap();
                let mut uris: Vec<String> = vec![];
                if placement == 1 { uris.push("docker://docker.io/heroku/example:1.2.3".into()); }
                if placement == 2 { uris.push("../vendor/bash-buildpack".into()); }
                for (k, x) in deps[i].iter().enumerate() { if placement == 3 && k > 0 { uris.push("https://example.com/bp.tgz".into()); } uris.push(format!("libcnb:demo/bp{x}")); }
                if placement == 4 { uris.push("urn:cnb:registry:heroku/other".into()); }
                fs::write(d.join("package.toml"), format!("[buildpack]\nuri = \".\"\n{}", uris.iter().map(|u| format!("[[dependencies]]\nuri = \"{u}\"\n")).collect::<String>())).unwrap();
            }
            let input = format!("dependencies {deps:?}, foreign URI placement {placement} (0 none, 1 docker first, 2 path first, 3 between, 4 last)");
            let graph = match build_libcnb_buildpacks_dependency_graph(root) { Ok(g) => g, Err(e) => { r.violation("workspace_graph", "the dependency graph of a well-formed workspace could not be built", input, "Ok".into(), e.to_string()); continue; } };
            let idx_of = |id: &str| -> usize { id.rsplit("bp").next().unwrap().parse().unwrap() };
            let mut got_edges: Vec<(usize, usize)> = graph.edge_indices().map(|e| { let (a, b) = graph.edge_endpoints(e).unwrap(); (idx_of(&graph[a].buildpack_id.to_string()), idx_of(&graph[b].buildpack_id.to_string())) }).collect();
            got_edges.sort();
            let mut want_edges: Vec<(usize, usize)> = deps.iter().enumerate().flat_map(|(i, d)| d.iter().map(move |x| (i, *x))).collect(); want_edges.sort();
            if graph.node_count() != n || got_edges != want_edges { r.violation("workspace_graph", "one node per buildpack and exactly the declared libcnb: edges (buildpack -> dependency)", input.clone(), format!("{n} nodes, edges {want_edges:?}"), format!("{} nodes, edges {got_edges:?}", graph.node_count())); continue; }
            let ids: Vec<u8> = (0..n as u8).collect(); let mut sels = vec![];
            for k in 1..=2usize.min(n) { perms(&ids, k, &mut vec![], &mut sels); }
            for sel in sels {
                let roots: Vec<_> = sel.iter().map(|i| graph.node_weights().find(|w| idx_of(&w.buildpack_id.to_string()) == *i as usize).unwrap()).collect();
                let got: Vec<usize> = match gd(&graph, &roots) { Ok(v) => v.iter().map(|w| idx_of(&w.buildpack_id.to_string())).collect(), Err(e) => { r.violation("workspace_order", "get_dependencies failed", format!("{input} roots {sel:?}"), "Ok".into(), e.to_string()); continue; } };
                let mut reach = BTreeSet::new(); let mut stack: Vec<usize> = sel.iter().map(|x| *x as usize).collect();
                while let Some(x) = stack.pop() { if reach.insert(x) { for d in &deps[x] { stack.push(*d); } } }
                let set: BTreeSet<usize> = got.iter().cloned().collect();
                let mut ok = set == reach && got.len() == set.len();
                for (pos, x) in got.iter().enumerate() { for d in &deps[*x] { if !got[..pos].contains(d) { ok = false; } } }
                if !ok { r.violation("workspace_order", "order is not exactly roots + transitive dependencies, each once, dependencies first", format!("{input} roots {sel:?}"), format!("set {reach:?}, dependencies first"), format!("{got:?}")); }
            }
        }
    }
    // a libcnb: reference to a buildpack that is not in the workspace, listed after a foreign URI
    {
        r.evaluations += 1; r.nontrivial += 1;
        let t = tempfile::tempdir().unwrap(); let d = t.path().join("bp"); fs::create_dir_all(&d).unwrap();
        fs::write(d.join("buildpack.toml"), "api = \"0.10\"\n[buildpack]\nid = \"demo/bp0\"\nversion = \"0.0.1\"\n[[order]]\n[[order.group]]\nid = \"x/y\"\nversion = \"1.0.0\"\n").unwrap();
        fs::write(d.join("package.toml"), "[buildpack]\nuri = \".\"\n[[dependencies]]\nuri = \"docker://img/x\"\n[[dependencies]]\nuri = \"libcnb:demo/ghost\"\n").unwrap();
        if build_libcnb_buildpacks_dependency_graph(t.path()).is_ok() { r.violation("workspace_missing_dependency", "a libcnb: dependency on a buildpack that does not exist is an error", "bp0 -> [docker://img/x, libcnb:demo/ghost]".into(), "Err".into(), "Ok".into()); }
    }
    // a libcnb: reference whose id is not a valid buildpack id is an error, never silently dropped
    for bad in ["libcnb:demo_b", "libcnb:", "libcnb:app"] {
        r.evaluations += 1; r.nontrivial += 1;
        let t = tempfile::tempdir().unwrap();
        for (name, uris) in [("bp0", vec!["libcnb:demo/bp1", bad]), ("bp1", vec![])] {
            let d = t.path().join(name); fs::create_dir_all(&d).unwrap();
            fs::write(d.join("buildpack.toml"), format!("api = \"0.10\"\n[buildpack]\nid = \"demo/{name}\"\nversion = \"0.0.1\"\n[[order]]\n[[order.group]]\nid = \"x/y\"\nversion = \"1.0.0\"\n")).unwrap();
            fs::write(d.join("package.toml"), format!("[buildpack]\nuri = \".\"\n{}", uris.iter().map(|u| format!("[[dependencies]]\nuri = \"{u}\"\n")).collect::<String>())).unwrap();
        }
        if let Ok(g) = build_libcnb_buildpacks_dependency_graph(t.path()) { r.violation("workspace_invalid_dependency_id", "a libcnb: dependency whose id is not a valid buildpack id is an error (not dropped)", format!("bp0 -> [libcnb:demo/bp1, {bad}]"), "Err".into(), format!("Ok: {} nodes, {} edges", g.node_count(), g.edge_count())); }
    }
    // a libcnb.rs COMPONENT buildpack (no order, has a Cargo.toml) may have a package.toml too: its libcnb: dependencies are edges like any other
    {
        r.evaluations += 1; r.nontrivial += 1;
        let t = tempfile::tempdir().unwrap();
        let comp = t.path().join("rs"); fs::create_dir_all(comp.join("src")).unwrap();
        fs::write(comp.join("buildpack.toml"), "api = \"0.10\"\n[buildpack]\nid = \"demo/rs\"\nversion = \"0.0.1\"\n").unwrap();
        fs::write(comp.join("Cargo.toml"), "[package]\nname = \"demo-rs\"\nversion = \"0.0.0\"\nedition = \"2021\"\n[workspace]\n").unwrap(); fs::write(comp.join("src/main.rs"), "fn main() {}\n").unwrap();
        fs::write(comp.join("package.toml"), "[buildpack]\nuri = \".\"\n[[dependencies]]\nuri = \"libcnb:demo/base\"\n").unwrap();
        let base = t.path().join("base"); fs::create_dir_all(&base).unwrap();
        fs::write(base.join("buildpack.toml"), "api = \"0.10\"\n[buildpack]\nid = \"demo/base\"\nversion = \"0.0.1\"\n[[order]]\n[[order.group]]\nid = \"x/y\"\nversion = \"1.0.0\"\n").unwrap();
        fs::write(base.join("package.toml"), "[buildpack]\nuri = \".\"\n").unwrap();
        match build_libcnb_buildpacks_dependency_graph(t.path()) {
            Ok(g) if g.node_count() == 2 && g.edge_count() == 1 => {}
            Ok(g) => r.violation("workspace_component_dependencies", "the libcnb: dependencies in the package.toml of a libcnb.rs (component) buildpack are edges of the graph", "rs (component, Cargo.toml) -> libcnb:demo/base (composite)".into(), "2 nodes, 1 edge".into(), format!("{} nodes, {} edges", g.node_count(), g.edge_count())),
            Err(e) => r.violation("workspace_component_dependencies", "the libcnb: dependencies in the package.toml of a libcnb.rs (component) buildpack are edges of the graph", "rs (component, Cargo.toml) -> libcnb:demo/base (composite)".into(), "2 nodes, 1 edge".into(), e.to_string()),
        }
        // ... and a dangling one is an error there too
        fs::write(comp.join("package.toml"), "[buildpack]\nuri = \".\"\n[[dependencies]]\nuri = \"libcnb:demo/ghost\"\n").unwrap();
        if build_libcnb_buildpacks_dependency_graph(t.path()).is_ok() { r.violation("workspace_component_dependencies", "a libcnb: dependency of a component buildpack on a buildpack that does not exist is an error", "rs (component) -> libcnb:demo/ghost".into(), "Err".into(), "Ok".into()); }
    }
    // a buildpack directory that is a symbolic link (to a directory outside the scanned root) is part of the workspace
    {
        r.evaluations += 1; r.nontrivial += 1;
        let t = tempfile::tempdir().unwrap(); let root = t.path().join("ws"); let ext = t.path().join("elsewhere/bp1");
        fs::create_dir_all(root.join("buildpacks/bp0")).unwrap(); fs::create_dir_all(&ext).unwrap();
        let toml = |name: &str| format!("api = \"0.10\"\n[buildpack]\nid = \"demo/{name}\"\nversion = \"0.0.1\"\n[[order]]\n[[order.group]]\nid = \"x/y\"\nversion = \"1.0.0\"\n");
        fs::write(root.join("buildpacks/bp0/buildpack.toml"), toml("bp0")).unwrap(); fs::write(root.join("buildpacks/bp0/package.toml"), "[buildpack]\nuri = \".\"\n[[dependencies]]\nuri = \"libcnb:demo/bp1\"\n").unwrap();
        fs::write(ext.join("buildpack.toml"), toml("bp1")).unwrap(); fs::write(ext.join("package.toml"), "[buildpack]\nuri = \".\"\n").unwrap();
        std::os::unix::fs::symlink(&ext, root.join("buildpacks/bp1")).unwrap();
        match build_libcnb_buildpacks_dependency_graph(&root) {
            Ok(g) if g.node_count() == 2 && g.edge_count() == 1 => {}
            Ok(g) => r.violation("workspace_symlinked_buildpack_dir", "a buildpack directory that is a symbolic link is found like any other", "buildpacks/bp0 -> libcnb:demo/bp1, buildpacks/bp1 -> symlink to ../../elsewhere/bp1".into(), "2 nodes, 1 edge".into(), format!("{} nodes, {} edges", g.node_count(), g.edge_count())),
            Err(e) => r.violation("workspace_symlinked_buildpack_dir", "a buildpack directory that is a symbolic link is found like any other", "buildpacks/bp0 -> libcnb:demo/bp1, buildpacks/bp1 -> symlink to ../../elsewhere/bp1".into(), "2 nodes, 1 edge".into(), e.to_string()),
        }
    }
    r.samples.push("bp0 -> [docker://.., libcnb:demo/bp1], bp1 -> [../vendor/.., libcnb:demo/bp2]; roots [bp0] -> [bp2, bp1, bp0]".into());
    r
}

// C13 bounded stand-in, command level: the real `cargo libcnb package` on composite-only workspaces (no compilation) - the order in which
// buildpacks are packaged is read from the "[i/n] Building <id>" lines; a wrong order also makes packaging fail (missing dependency path).
pub fn command(_thorough: bool) -> Report {
    use std::fs; use std::process::Command;
    let mut r = Report::new(
        "the real `cargo libcnb package` (libcnb-cargo built from /repo, offline) on workspaces of composite buildpacks: a chain top -> mid -> base and a diamond top -> {l, r} -> base, with the roles assigned to the directory names in EVERY permutation (so no directory walk order happens to be a dependency order), invoked from the workspace root and from the top buildpack's directory: exit 0, every buildpack packaged exactly once, each after all of its dependencies, exactly the selected buildpacks and their dependencies; non-trivial = all",
        "6 + 24 role assignments x 2 invocation directories",
    );
    let pers = std::path::Path::new(env!("CARGO_MANIFEST_DIR")).join("target/c15"); fs::create_dir_all(&pers).unwrap();
    let st = Command::new("cargo").args(["build", "--offline", "-p", "libcnb-cargo", "--target-dir"]).arg(pers.join("cargo-libcnb")).current_dir("/repo").env("CARGO_NET_OFFLINE", "true").output().unwrap();
    let tool = pers.join("cargo-libcnb/debug/cargo-libcnb");
    if !st.status.success() || !tool.exists() { r.violation("harness", "libcnb-cargo does not build", String::new(), "built".into(), String::from_utf8_lossy(&st.stderr).chars().rev().take(400).collect::<String>().chars().rev().collect()); return r; }
    let cargo_bin = String::from_utf8_lossy(&Command::new("sh").args(["-c", "command -v cargo"]).output().unwrap().stdout).trim().to_string();
    // shapes: role -> dependencies (roles by index; role 0 is the top)
    let shapes: Vec<(&str, Vec<Vec<usize>>)> = vec![("chain", vec![vec![1], vec![2], vec![]]), ("diamond", vec![vec![1, 2], vec![3], vec![3], vec![]])];
    for (shape, deps) in &shapes {
        let n = deps.len(); let names: Vec<String> = (0..n).map(|i| format!("{}", (b'a' + i as u8) as char)).collect();
        let ids: Vec<u8> = (0..n as u8).collect(); let mut perms_v = vec![]; perms(&ids, n, &mut vec![], &mut perms_v);
        for perm in perms_v { for from_top in [false, true] {
            r.evaluations += 1; r.nontrivial += 1;
            let t = tempfile::tempdir().unwrap(); let root = t.path().canonicalize().unwrap();
            fs::write(root.join("Cargo.toml"), "[workspace]\nresolver = \"2\"\nmembers = []\n").unwrap(); fs::write(root.join(".ignore"), "packaged/\n").unwrap();
            // role i lives in directory names[perm[i]] and has id demo/<that name>
            let dir_of = |role: usize| names[perm[role] as usize].clone();
            for role in 0..n {
                let d = root.join("bps").join(dir_of(role)); fs::create_dir_all(&d).unwrap();
                fs::write(d.join("buildpack.toml"), format!("api = \"0.10\"\n[buildpack]\nid = \"demo/{}\"\nversion = \"0.0.1\"\n[[order]]\n[[order.group]]\nid = \"x/y\"\nversion = \"1.0.0\"\n", dir_of(role))).unwrap();
                fs::write(d.join("package.toml"), format!("[buildpack]\nuri = \".\"\n{}", deps[role].iter().map(|x| format!("[[dependencies]]\nuri = \"libcnb:demo/{}\"\n", dir_of(*x))).collect::<String>())).unwrap();
            }
            let cwd = if from_top { root.join("bps").join(dir_of(0)) } else { root.clone() };
            let out = Command::new(&tool).args(["libcnb", "package", "--target", "x86_64-unknown-linux-gnu", "--no-cross-compile-assistance"]).current_dir(&cwd).env("CARGO_NET_OFFLINE", "true").env("CARGO", &cargo_bin).output().unwrap();
            let err = String::from_utf8_lossy(&out.stderr).to_string();
            let order: Vec<String> = err.lines().filter(|l| l.contains("] Building demo/")).filter_map(|l| l.split("Building demo/").nth(1)).map(|x| x.split_whitespace().next().unwrap_or("").to_string()).collect();
            let input = format!("{shape}: roles (0 = top) in directories {:?}, dependencies by role {deps:?}, invoked from {}", (0..n).map(dir_of).collect::<Vec<_>>(), if from_top { "the top buildpack's directory" } else { "the workspace root" });
            let mut ok = out.status.success() && order.len() == n && (0..n).all(|role| order.iter().filter(|x| **x == dir_of(role)).count() == 1);
            if ok { for role in 0..n { let pos = order.iter().position(|x| *x == dir_of(role)).unwrap(); for d in &deps[role] { if order.iter().position(|x| *x == dir_of(*d)).map(|p| p > pos).unwrap_or(true) { ok = false; } } } }
            if !ok { r.violation("command_order", "every selected buildpack and dependency is packaged exactly once, each after all of its dependencies", input, "exit 0, a dependency order".into(), format!("exit {:?}, order {order:?}; {}", out.status.code(), err.lines().rev().find(|l| l.contains('❌')).unwrap_or(""))); }
        } }
    }
    r.samples.push("chain with top in c/, mid in a/, base in b/: order b, a, c".into());
    r
}
