use crate::Report;
pub fn order(_thorough: bool) -> Report { Report::new("not implemented yet", "-") }
