// C13 bounded stand-in on REAL petgraph: every labelled DAG up to N nodes x every non-empty ordered root selection; one dangling edge.
use crate::Report;
// the real source file is compiled into the harness (create_dependency_graph is pub(crate) in libcnb-package)
#[path = "/repo/libcnb-package/src/dependency_graph.rs"]
#[allow(dead_code, unreachable_pub)]
mod dg;
use dg::{DependencyNode, get_dependencies};
use std::collections::BTreeSet;
use std::convert::Infallible;

#[derive(Debug, Clone)]
struct N { id: u8, deps: Vec<u8> }
impl DependencyNode<u8, Infallible> for N {
    fn id(&self) -> u8 { self.id }
    fn dependencies(&self) -> Result<Vec<u8>, Infallible> { Ok(self.deps.clone()) }
}
fn perms(items: &[u8], k: usize, cur: &mut Vec<u8>, out: &mut Vec<Vec<u8>>) {
    if cur.len() == k { out.push(cur.clone()); return; }
    for &i in items { if !cur.contains(&i) { cur.push(i); perms(items, k, cur, out); cur.pop(); } }
}
pub fn order(thorough: bool) -> Report {
    let maxn = if thorough { 5 } else { 4 };
    let mut r = Report::new(
        "every labelled DAG (all subsets of the n(n-1) directed pairs that are acyclic) on up to N nodes x every non-empty ordered selection of roots: the real create_dependency_graph + get_dependencies (real petgraph) returns exactly roots + transitive dependencies, each once, each after all of its dependencies; a dependency on an unknown id is an error; non-trivial = graphs with at least one edge",
        &format!("N <= {maxn} nodes"),
    );
    for n in 1..=maxn {
        let pairs: Vec<(u8, u8)> = (0..n as u8).flat_map(|i| (0..n as u8).filter(move |j| *j != i).map(move |j| (i, j))).collect();
        for mask in 0u32..(1 << pairs.len()) {
            {
                let mut nodes: Vec<N> = (0..n as u8).map(|i| N { id: i, deps: vec![] }).collect();
                for (b, (i, j)) in pairs.iter().enumerate() { if mask >> b & 1 == 1 { nodes[*i as usize].deps.push(*j); } }
                // keep acyclic graphs only (Kahn)
                let mut indeg = vec![0; n]; for x in &nodes { for d in &x.deps { indeg[*d as usize] += 1; } }
                let mut q: Vec<usize> = (0..n).filter(|i| indeg[*i] == 0).collect(); let mut seen = 0;
                while let Some(x) = q.pop() { seen += 1; for d in &nodes[x].deps { indeg[*d as usize] -= 1; if indeg[*d as usize] == 0 { q.push(*d as usize); } } }
                if seen != n { continue; }
                let graph = match libcnb_package_create(nodes.clone()) { Ok(g) => g, Err(e) => { r.violation("create", "create_dependency_graph failed on a complete DAG", format!("{nodes:?}"), "Ok".into(), e); continue; } };
                let ids: Vec<u8> = (0..n as u8).collect();
                let mut sels = vec![];
                for k in 1..=n.min(3) { perms(&ids, k, &mut vec![], &mut sels); }
                for sel in sels {
                    r.evaluations += 1;
                    if mask != 0 { r.nontrivial += 1; }
                    let roots: Vec<&N> = sel.iter().map(|i| &nodes[*i as usize]).collect();
                    let got: Vec<u8> = match get_dependencies(&graph, &roots) { Ok(v) => v.iter().map(|x| x.id).collect(), Err(e) => { r.violation("get", "get_dependencies failed", format!("{nodes:?} roots={sel:?}"), "Ok".into(), e.to_string()); continue; } };
                    // expected set: reachable from roots
                    let mut reach = BTreeSet::new(); let mut stack: Vec<u8> = sel.clone();
                    while let Some(x) = stack.pop() { if reach.insert(x) { for d in &nodes[x as usize].deps { stack.push(*d); } } }
                    let set: BTreeSet<u8> = got.iter().cloned().collect();
                    let mut ok = set == reach && got.len() == set.len();
                    for (pos, x) in got.iter().enumerate() { for d in &nodes[*x as usize].deps { if !got[..pos].contains(d) { ok = false; } } }
                    if !ok { r.violation("build_order", "order is not exactly roots + transitive dependencies, each once, dependencies first", format!("nodes={nodes:?} roots={sel:?}"), format!("set {reach:?}, deps first"), format!("{got:?}")); }
                }
            }
        }
        // dangling dependency
        r.evaluations += 1; r.nontrivial += 1;
        let mut nodes: Vec<N> = (0..n as u8).map(|i| N { id: i, deps: vec![] }).collect();
        nodes[0].deps.push(99);
        if libcnb_package_create(nodes.clone()).is_ok() { r.violation("missing_dependency", "dependency on an unknown id was not an error", format!("{nodes:?}"), "Err(MissingDependency)".into(), "Ok".into()); }
    }
    r.samples.push("nodes 0,1,2 with 2->1, 2->0, 1->0; roots [2] -> [0,1,2]".into());
    r
}
fn libcnb_package_create(nodes: Vec<N>) -> Result<petgraph_graph<N>, String> {
    dg::create_dependency_graph(nodes).map_err(|e| e.to_string())
}
#[allow(non_camel_case_types)]
type petgraph_graph<T> = petgraph::Graph<T, ()>;
