// C03 / C10 witness search on real directories (tempdir): executable form of write_to_layer_dir's exact-layout
// postcondition, the round trip, and read_from_layer_dir's implicit entries.
use crate::Report;
use libcnb::Env;
use libcnb::layer_env::{LayerEnv, ModificationBehavior as MB, Scope};
use std::collections::BTreeMap;
use std::fs;
use std::os::unix::ffi::{OsStrExt, OsStringExt};
use std::path::{Path, PathBuf};

fn mb(i: u8) -> MB { match i { 0 => MB::Append, 1 => MB::Default, 2 => MB::Delimiter, 3 => MB::Override, _ => MB::Prepend } }
fn ext(i: u8) -> &'static str { match i { 0 => "append", 1 => "default", 2 => "delim", 3 => "override", _ => "prepend" } }
fn scope(i: u8) -> Scope { match i { 0 => Scope::All, 1 => Scope::Build, 2 => Scope::Launch, 3 => Scope::Process("web".into()), _ => Scope::Process("worker".into()) } }
fn scope_dir(i: u8) -> &'static str { match i { 0 => "env", 1 => "env.build", 2 => "env.launch", 3 => "env.launch/web", _ => "env.launch/worker" } }
type Entry = (u8, u8, usize, usize); // scope, behaviour, name idx, value idx

fn tree(root: &Path) -> BTreeMap<PathBuf, Option<Vec<u8>>> {
    let mut out = BTreeMap::new();
    fn go(root: &Path, p: &Path, out: &mut BTreeMap<PathBuf, Option<Vec<u8>>>) {
        for e in fs::read_dir(p).unwrap() {
            let e = e.unwrap(); let path = e.path(); let rel = path.strip_prefix(root).unwrap().to_path_buf();
            if e.file_type().unwrap().is_dir() { out.insert(rel, None); go(root, &path, out); } else { out.insert(rel, Some(fs::read(&path).unwrap_or_default())); }
        }
    }
    go(root, root, &mut out);
    out
}
fn expected_tree(names: &[Vec<u8>], vals: &[Vec<u8>], es: &[Entry]) -> BTreeMap<PathBuf, Option<Vec<u8>>> {
    let mut out = BTreeMap::new();
    for e in es {
        let dir = PathBuf::from(scope_dir(e.0));
        let mut d = PathBuf::new();
        for c in dir.components() { d.push(c); out.insert(d.clone(), None); }
        let mut fname = names[e.2].clone(); fname.extend_from_slice(b"."); fname.extend_from_slice(ext(e.1).as_bytes());
        out.insert(dir.join(std::ffi::OsString::from_vec(fname)), Some(vals[e.3].clone()));
    }
    out
}
fn build(names: &[Vec<u8>], vals: &[Vec<u8>], es: &[Entry]) -> LayerEnv {
    let mut le = LayerEnv::new();
    for e in es { le.insert(scope(e.0), mb(e.1), std::ffi::OsString::from_vec(names[e.2].clone()), std::ffi::OsString::from_vec(vals[e.3].clone())); }
    le
}
fn applies_same(a: &LayerEnv, b: &LayerEnv) -> Option<String> {
    for q in [Scope::All, Scope::Build, Scope::Launch, Scope::Process("web".into()), Scope::Process("worker".into()), Scope::Process("none".into())] {
        for start in [None, Some(""), Some("x")] {
            let mut env = Env::new();
            if let Some(s) = start { env.insert("A", s); env.insert("B.c", s); }
            let (x, y) = (a.apply(q.clone(), &env), b.apply(q.clone(), &env));
            let dump = |e: &Env| { let mut v: Vec<(Vec<u8>, Vec<u8>)> = e.iter().map(|(k, v)| (k.as_bytes().to_vec(), v.as_bytes().to_vec())).collect(); v.sort(); v };
            if dump(&x) != dump(&y) { return Some(format!("scope {q:?} start {start:?}: {:?} vs {:?}", dump(&x), dump(&y))); }
        }
    }
    None
}

pub fn env_files(thorough: bool) -> Report {
    let mut r = Report::new(
        "witness search on a real tempdir: every pair (old env, new env) of layer environments with up to K entries over 5 scopes (all, build, launch, process web, process worker) x 5 behaviours x names {A, B.c, non-UTF-8, .hidden.var} x values {empty, bytes}, written successively into one layer directory holding an unrelated file: afterwards the env directories hold exactly the CNB layout of the NEW env, the unrelated file is untouched, and read_from_layer_dir applies identically to the new env; non-trivial = pairs where old and new differ",
        if thorough { "K <= 2 entries per new environment (every 29th pair), old environments: one per scope x 2 plus every 9th one-entry environment" } else { "K = 1 entry per environment, plus the empty environment and three multi-scope environments (launch + two process types, two process types, all five scopes)" },
    );
    let names: Vec<Vec<u8>> = vec![b"A".to_vec(), b"B.c".to_vec(), vec![0xff, b'x'], b".hidden.var".to_vec()];
    let vals: Vec<Vec<u8>> = vec![vec![], vec![b'v', 0xfe, b'\n']];
    let mut singles: Vec<Entry> = vec![];
    for s in 0..5u8 { for b in 0..5u8 { for n in 0..names.len() { for v in 0..vals.len() { singles.push((s, b, n, v)); } } } }
    let mut envs: Vec<Vec<Entry>> = vec![vec![]];
    for e in &singles { envs.push(vec![*e]); }
    // always: environments that use several scopes at once (launch + two process types; two process types alone; everything)
    envs.push(vec![(2, 2, 0, 1), (3, 3, 0, 1), (4, 0, 1, 0)]);
    envs.push(vec![(3, 2, 0, 1), (4, 2, 0, 1)]);
    envs.push(vec![(0, 1, 0, 1), (1, 4, 0, 1), (2, 0, 2, 0), (3, 3, 1, 1), (4, 2, 2, 1)]);
    if thorough { for (i, a) in singles.iter().enumerate() { for b in singles.iter().skip(i + 1).step_by(29) { if (a.0, a.1, a.2) != (b.0, b.1, b.2) { envs.push(vec![*a, *b]); } } } }
    // old environments: a small covering subset (every scope once) to keep the quick tier fast
    let olds: Vec<Vec<Entry>> = { let mut v = vec![vec![]]; for s in 0..5u8 { v.push(vec![(s, 3, 0, 1)]); v.push(vec![(s, 0, 1, 0)]); } if thorough { for e in singles.iter().step_by(9) { v.push(vec![*e]); } } v };   // thorough: the covering subset plus every 9th one-entry environment as the OLD environment
    for old in &olds {
        for new in &envs {
            r.evaluations += 1;
            if old != new { r.nontrivial += 1; }
            let t = tempfile::tempdir().unwrap();
            let layer = t.path().join("layer"); fs::create_dir_all(layer.join("bin")).unwrap(); fs::write(layer.join("bin/tool"), b"#!").unwrap(); fs::write(layer.join("data.txt"), b"keep").unwrap();
            let (le_old, le_new) = (build(&names, &vals, old), build(&names, &vals, new));
            if let Err(e) = le_old.write_to_layer_dir(&layer) { r.violation("write_old", "write_to_layer_dir failed", format!("{old:?}"), "Ok".into(), format!("{e}")); continue; }
            if let Err(e) = le_new.write_to_layer_dir(&layer) { r.violation("write_new", "write_to_layer_dir failed", format!("old={old:?} new={new:?}"), "Ok".into(), format!("{e}")); continue; }
            let mut exp = expected_tree(&names, &vals, new);
            exp.insert("bin".into(), None); exp.insert("bin/tool".into(), Some(b"#!".to_vec())); exp.insert("data.txt".into(), Some(b"keep".to_vec()));
            let got = tree(&layer);
            if got != exp {
                let extra: Vec<_> = got.keys().filter(|k| !exp.contains_key(*k)).collect(); let missing: Vec<_> = exp.keys().filter(|k| !got.contains_key(*k)).collect();
                r.violation("exact_layout", "layer directory is not exactly the CNB layout of the new environment (+ untouched other files)", format!("old={old:?} new={new:?} (scope,behaviour,name,value)"), format!("missing {missing:?}"), format!("extra {extra:?}"));
                continue;
            }
            match LayerEnv::read_from_layer_dir(&layer) {
                Err(e) => r.violation("read_back", "read_from_layer_dir failed on a written layout", format!("{new:?}"), "Ok".into(), format!("{e}")),
                Ok(back) => { if let Some(d) = applies_same(&back, &{ let mut x = build(&names, &vals, new); let _ = &mut x; x_with_paths(x, &layer) }) { r.violation("round_trip", "environment read back applies differently", format!("{new:?}"), "same".into(), d); } }
            }
        }
    }
    // ONE variable carrying several behaviours in ONE scope: every read of the written directory applies them in the lifecycle's order
    // (append, default, override, prepend) - literal expected values, 25 fresh reads
    for sc in 0..4u8 {
        r.evaluations += 1; r.nontrivial += 1;
        let t = tempfile::tempdir().unwrap(); let layer = t.path().join("layer"); fs::create_dir_all(&layer).unwrap();
        let mut le = LayerEnv::new();
        for (b, n, v) in [(MB::Append, "OPTS", "a"), (MB::Default, "OPTS", "d"), (MB::Prepend, "OPTS", "p"), (MB::Delimiter, "OPTS", ":"), (MB::Override, "OVR", "o"), (MB::Append, "OVR", "a"), (MB::Delimiter, "OVR", ":"), (MB::Override, "BOTH", "o"), (MB::Prepend, "BOTH", "p"), (MB::Delimiter, "BOTH", ":")] { le.insert(scope(sc), b, n, v); }
        le.write_to_layer_dir(&layer).unwrap();
        for rep in 0..25 {
            let back = match LayerEnv::read_from_layer_dir(&layer) { Ok(b) => b, Err(e) => { r.violation("read_back", "read_from_layer_dir failed on a written layout", format!("scope {sc}"), "Ok".into(), e.to_string()); break; } };
            let mut bad = None;
            for (start, want_opts, want_ovr) in [(None, "p:a", "o"), (Some("x"), "p:x:a", "o")] {
                let mut env = Env::new(); if let Some(x) = start { env.insert("OPTS", x); env.insert("OVR", x); env.insert("BOTH", x); }
                let got = back.apply(scope(sc), &env);
                let g = |n: &str| got.get(n).map(|v| v.to_string_lossy().to_string());
                if g("OPTS").as_deref() != Some(want_opts) || g("OVR").as_deref() != Some(want_ovr) || g("BOTH").as_deref() != Some("p:o") { bad = Some((start, format!("OPTS={want_opts} OVR={want_ovr} BOTH=p:o"), format!("OPTS={:?} OVR={:?} BOTH={:?}", g("OPTS"), g("OVR"), g("BOTH")))); }
            }
            if let Some((start, want, got)) = bad { r.violation("round_trip_order", "an environment read back applies a variable's behaviours in the lifecycle's order (append, default, override, prepend), on every read", format!("scope {:?}: OPTS.append=a OPTS.default=d OPTS.prepend=p OPTS.delim=: OVR.override=o OVR.append=a OVR.delim=: BOTH.override=o BOTH.prepend=p BOTH.delim=: ; start {start:?}; read #{rep}", scope(sc)), want, got); break; }
        }
    }
    // read side: suffix-less = override, unknown suffix ignored, sub-directories skipped
    {
        r.evaluations += 1; r.nontrivial += 1;
        let t = tempfile::tempdir().unwrap(); let l = t.path();
        fs::create_dir_all(l.join("env/sub")).unwrap(); fs::write(l.join("env/PLAIN"), b"p").unwrap(); fs::write(l.join("env/X.unknown"), b"u").unwrap(); fs::write(l.join("env/Y.append"), b"y").unwrap();
        match LayerEnv::read_from_layer_dir(l) {
            Err(e) => r.violation("read_rules", "read failed", "env/{PLAIN,X.unknown,Y.append,sub/}".into(), "Ok".into(), format!("{e}")),
            Ok(le) => {
                let mut e0 = Env::new(); e0.insert("PLAIN", "old"); e0.insert("Y", "0");
                let got = le.apply(Scope::All, &e0);
                let ok = got.get("PLAIN").map(|v| v.as_bytes()) == Some(b"p") && got.get("X").is_none() && got.get("Y").map(|v| v.as_bytes()) == Some(b"0y");
                if !ok { r.violation("read_rules", "suffix-less/unknown-suffix/append rules", "env/{PLAIN,X.unknown,Y.append,sub/}".into(), "PLAIN=p, X unset, Y=0y".into(), format!("{:?} {:?} {:?}", got.get("PLAIN"), got.get("X"), got.get("Y"))); }
            }
        }
    }
    // read side, hand-made layout: every suffix in every directory, read into the right scope with the right behaviour
    {
        let t = tempfile::tempdir().unwrap(); let l = t.path();
        let dirs = [("env", Scope::All), ("env.build", Scope::Build), ("env.launch", Scope::Launch), ("env.launch/web", Scope::Process("web".into()))];
        for (d, _) in &dirs {
            fs::create_dir_all(l.join(d)).unwrap();
            let tag = d.replace('/', "_");
            fs::write(l.join(d).join("A.append"), format!("+{tag}")).unwrap(); fs::write(l.join(d).join("A.delim"), "|").unwrap();
            fs::write(l.join(d).join("P.prepend"), format!("{tag}+")).unwrap();
            fs::write(l.join(d).join("D.default"), format!("d-{tag}")).unwrap(); fs::write(l.join(d).join("D2.default"), format!("d2-{tag}")).unwrap();
            fs::write(l.join(d).join("O.override"), format!("o-{tag}\n")).unwrap();
            fs::write(l.join(d).join("N.A.ME.override"), format!("dotted-{tag}")).unwrap();
            // unknown suffixes, also ones that are not UTF-8, are ignored (not read as suffix-less = override)
            use std::os::unix::ffi::OsStringExt;
            fs::write(l.join(d).join(std::ffi::OsString::from_vec(b"O.\xFF\xFE".to_vec())), "stale").unwrap();
            fs::write(l.join(d).join(std::ffi::OsString::from_vec(b"A.app\xE9nd".to_vec())), "stale").unwrap();
            fs::write(l.join(d).join(std::ffi::OsString::from_vec(b"GHOST.\xFF".to_vec())), "stale").unwrap();
            fs::write(l.join(d).join("GHOST2.bak"), "stale").unwrap();
            // an env file may be a symbolic link to a regular file (read through the link); a dangling one is an error elsewhere, not placed here
            fs::create_dir_all(l.join("share")).unwrap(); fs::write(l.join("share").join(format!("java_home_{tag}")), format!("/layers/jdk-{tag}")).unwrap();
            std::os::unix::fs::symlink(l.join("share").join(format!("java_home_{tag}")), l.join(d).join("JAVA_HOME.override")).unwrap();
        }
        match LayerEnv::read_from_layer_dir(l) {
            Err(e) => r.violation("read_rules", "read failed on a hand-made CNB layout", "all suffixes in env, env.build, env.launch, env.launch/web".into(), "Ok".into(), format!("{e}")),
            Ok(le) => {
                for (d, scope) in &dirs {
                    r.evaluations += 1; r.nontrivial += 1;
                    let tag = d.replace('/', "_");
                    // the scope-specific entries apply after the ones of `env` (all); a process scope does not see env.launch's own files
                    let chain: Vec<String> = if *d == "env" { vec!["env".into()] } else { vec!["env".into(), tag.clone()] };
                    let mut e0 = Env::new(); e0.insert("A", "a0"); e0.insert("P", "p0"); e0.insert("D", "keep"); e0.insert("O", "o0");
                    let got = le.apply(scope.clone(), &e0);
                    let mut a = String::from("a0"); let mut pv = String::from("p0"); let mut d2 = None; let mut o = String::new(); let mut n = String::new();
                    for c in &chain { a = format!("{a}|+{c}"); pv = format!("{c}+{pv}"); if d2.is_none() { d2 = Some(format!("d2-{c}")); } o = format!("o-{c}\n"); n = format!("dotted-{c}"); }
                    let want = [("A", a), ("P", pv), ("D", "keep".to_string()), ("D2", d2.unwrap()), ("O", o), ("N.A.ME", n), ("JAVA_HOME", format!("/layers/jdk-{}", chain.last().unwrap()))];
                    for g in ["GHOST", "GHOST2"] { if got.get(g).is_some() { r.violation("read_rules", "files with an unknown suffix (also a non-UTF-8 one) are ignored", format!("directory {d}, file {g}.<unknown suffix>"), "variable unset".into(), format!("{:?}", got.get(g))); } }
                    for (k, v) in want { if got.get(k).map(|x| x.to_string_lossy().to_string()) != Some(v.clone()) { r.violation("read_rules", "a hand-made CNB layout is read into the right scope with the right behaviour for every suffix", format!("directory {d}, variable {k}, start A=a0 P=p0 D=keep O=o0"), v, format!("{:?}", got.get(k))); } }
                }
            }
        }
    }
    r.samples.push("old = [Override A (process web)], new = [] -> env.launch/ must be gone".into());
    r
}
// the env as read back also carries implicit layer paths (bin/ exists): add them to the reference by reading (C10 is checked separately)
fn x_with_paths(le: LayerEnv, layer: &Path) -> LayerEnv {
    // the reference applies identically except for the implicit PATH entry of <layer>/bin, which read_from_layer_dir adds
    let mut le = le;
    let _ = layer;
    // emulate: PATH prepend for build and launch with ':' delimiter
    le.insert(Scope::Build, MB::Prepend, "PATH", layer.join("bin"));
    le.insert(Scope::Build, MB::Delimiter, "PATH", ":");
    le.insert(Scope::Launch, MB::Prepend, "PATH", layer.join("bin"));
    le.insert(Scope::Launch, MB::Delimiter, "PATH", ":");
    le
}

pub fn layer_paths(_thorough: bool) -> Report {
    let mut r = Report::new(
        "witness search on a real tempdir: all 6^4 assignments of {absent, directory, file, symlink to dir, symlink to file, dangling symlink} to bin/lib/include/pkgconfig: read_from_layer_dir + apply(scope, {}) gives exactly the implicit variables the statement lists for Build and Launch and nothing for All/Process; read->write leaves the layer tree unchanged; non-trivial = assignments with at least one directory",
        "6^4 = 1296 layer directories x 4 scopes",
    );
    let subs = ["bin", "lib", "include", "pkgconfig"];
    for code in 0..1296u32 {
        r.evaluations += 1;
        let t = tempfile::tempdir().unwrap(); let l = t.path().join("layer"); fs::create_dir_all(&l).unwrap();
        let targets = t.path().join("targets"); fs::create_dir_all(targets.join("d")).unwrap(); fs::write(targets.join("f"), b"x").unwrap();
        let mut kinds = [0u32; 4]; let mut c = code;
        for k in kinds.iter_mut() { *k = c % 6; c /= 6; }
        for (i, s) in subs.iter().enumerate() {
            let p = l.join(s);
            match kinds[i] { 0 => {}, 1 => fs::create_dir(&p).unwrap(), 2 => fs::write(&p, b"f").unwrap(), 3 => std::os::unix::fs::symlink(targets.join("d"), &p).unwrap(),
                             4 => std::os::unix::fs::symlink(targets.join("f"), &p).unwrap(), _ => std::os::unix::fs::symlink(targets.join("nope"), &p).unwrap() }
        }
        let isdir = |i: usize| kinds[i] == 1 || kinds[i] == 3;
        if (0..4).any(isdir) { r.nontrivial += 1; }
        let before = snapshot(&l);
        let le = match LayerEnv::read_from_layer_dir(&l) { Ok(x) => x, Err(e) => { r.violation("read", "read_from_layer_dir failed", format!("{kinds:?}"), "Ok".into(), format!("{e}")); continue; } };
        let p = |s: &str| l.join(s).into_os_string();
        for (q, build, on) in [(Scope::Build, true, true), (Scope::Launch, false, true), (Scope::All, false, false), (Scope::Process("web".into()), false, false)] {
            let got = le.apply_to_empty(q.clone());
            let mut exp: BTreeMap<&str, std::ffi::OsString> = BTreeMap::new();
            if on {
                if isdir(0) { exp.insert("PATH", p("bin")); }
                if isdir(1) { exp.insert("LD_LIBRARY_PATH", p("lib")); if build { exp.insert("LIBRARY_PATH", p("lib")); } }
                if build && isdir(2) { exp.insert("CPATH", p("include")); }
                if build && isdir(3) { exp.insert("PKG_CONFIG_PATH", p("pkgconfig")); }
            }
            for v in ["PATH", "LD_LIBRARY_PATH", "LIBRARY_PATH", "CPATH", "PKG_CONFIG_PATH"] {
                if got.get(v) != exp.get(v) { r.violation("implicit_paths", "implicit layer path entries", format!("bin/lib/include/pkgconfig kinds={kinds:?} (0 absent,1 dir,2 file,3 link->dir,4 link->file,5 dangling) scope={q:?} var={v}"), format!("{:?}", exp.get(v)), format!("{:?}", got.get(v))); }
            }
            // joined with ':' when the variable already has a value
            let mut e1 = Env::new(); e1.insert("PATH", "/usr/bin");
            let g = le.apply(q.clone(), &e1);
            let want = if on && isdir(0) { let mut s = p("bin"); s.push(":/usr/bin"); s } else { "/usr/bin".into() };
            // a variable that is DEFINED but empty has no element to join with: no trailing separator
            let mut e2 = Env::new(); e2.insert("PATH", "");
            let g2 = le.apply(q.clone(), &e2);
            let want2: std::ffi::OsString = if on && isdir(0) { p("bin") } else { "".into() };
            if g2.get("PATH") != Some(&want2) { r.violation("implicit_paths_join", "implicit PATH prepended to a variable that is defined as the empty string: no separator", format!("kinds={kinds:?} scope={q:?} start PATH=\"\""), format!("{want2:?}"), format!("{:?}", g2.get("PATH"))); }
            if g.get("PATH") != Some(&want) { r.violation("implicit_paths_join", "implicit PATH is prepended with the separator", format!("kinds={kinds:?} scope={q:?}"), format!("{want:?}"), format!("{:?}", g.get("PATH"))); }
        }
        // never persisted: read -> write leaves the tree unchanged
        if le.write_to_layer_dir(&l).is_err() || snapshot(&l) != before { r.violation("fixpoint", "read -> write changed the layer directory", format!("{kinds:?}"), "unchanged".into(), "changed".into()); }
    }
    // implicit entries apply AFTER the explicit ones of the same scope (explicit override / prepend / default on the same variables)
    for (explicit, var, sub) in [("override", "PATH", "bin"), ("prepend", "LD_LIBRARY_PATH", "lib"), ("default", "PATH", "bin"), ("append", "LD_LIBRARY_PATH", "lib")] {
        for start in [None, Some("/usr/start")] {
            r.evaluations += 1; r.nontrivial += 1;
            let t = tempfile::tempdir().unwrap(); let l = t.path().join("layer"); fs::create_dir_all(l.join(sub)).unwrap();
            for d in ["env.build", "env.launch"] { fs::create_dir_all(l.join(d)).unwrap(); fs::write(l.join(d).join(format!("{var}.{explicit}")), "/opt/explicit").unwrap(); fs::write(l.join(d).join(format!("{var}.delim")), ":").unwrap(); }
            let le = LayerEnv::read_from_layer_dir(&l).unwrap();
            let mut e0 = Env::new(); if let Some(s) = start { e0.insert(var, s); }
            // explicit first ...
            let after_explicit: Option<String> = match (explicit, start) {
                ("override", _) => Some("/opt/explicit".into()), ("default", None) => Some("/opt/explicit".into()), ("default", Some(s)) => Some(s.into()),
                ("prepend", None) | ("append", None) => Some("/opt/explicit".into()), ("prepend", Some(s)) => Some(format!("/opt/explicit:{s}")), (_, Some(s)) => Some(format!("{s}:/opt/explicit")), _ => None };
            // ... then the implicit prepend of <layer>/<sub>
            let want = format!("{}:{}", l.join(sub).display(), after_explicit.unwrap());
            for q in [Scope::Build, Scope::Launch] {
                let g = le.apply(q.clone(), &e0);
                if g.get(var).map(|v| v.to_string_lossy().to_string()) != Some(want.clone()) { r.violation("implicit_after_explicit", "the implicit layer path is prepended after the explicit entries of the scope were applied", format!("explicit {var}.{explicit}=/opt/explicit, {sub}/ is a directory, start {start:?}, scope {q:?}"), want.clone(), format!("{:?}", g.get(var))); }
            }
        }
    }
    // re-reading in the SAME process sees the present state: the target behind a symlinked standard directory appears / turns into a file between two reads
    {
        r.evaluations += 1; r.nontrivial += 1;
        let t = tempfile::tempdir().unwrap(); let l = t.path().join("layer"); fs::create_dir_all(l.join("dist")).unwrap(); fs::create_dir_all(l.join("vendor/lib")).unwrap();
        std::os::unix::fs::symlink("dist/bin", l.join("bin")).unwrap(); std::os::unix::fs::symlink("vendor/lib", l.join("lib")).unwrap();
        let path_of = |le: &LayerEnv, v: &str| le.apply_to_empty(Scope::Build).get(v).map(|x| x.to_string_lossy().to_string());
        let first = LayerEnv::read_from_layer_dir(&l).unwrap();
        let (p1, l1) = (path_of(&first, "PATH"), path_of(&first, "LD_LIBRARY_PATH"));
        fs::create_dir_all(l.join("dist/bin")).unwrap();                                             // bin -> dist/bin now IS a directory
        fs::remove_dir(l.join("vendor/lib")).unwrap(); fs::write(l.join("vendor/lib"), b"f").unwrap(); // lib -> vendor/lib now is a FILE
        let second = LayerEnv::read_from_layer_dir(&l).unwrap();
        let (p2, l2) = (path_of(&second, "PATH"), path_of(&second, "LD_LIBRARY_PATH"));
        let want = (None, Some(l.join("lib").display().to_string()), Some(l.join("bin").display().to_string()), None);
        if (p1.clone(), l1.clone(), p2.clone(), l2.clone()) != want { r.violation("implicit_paths", "every read reflects the directory as it is NOW (no answer remembered from an earlier read in the same process)", "bin -> dist/bin (absent, then created), lib -> vendor/lib (directory, then replaced by a file); read, change, read".into(), format!("{want:?} (PATH, LD_LIBRARY_PATH before; PATH, LD_LIBRARY_PATH after)"), format!("{:?}", (p1, l1, p2, l2))); }
    }
    // read -> write -> read -> write of a layer that HAS explicit environment files (all scopes, values and names that are not valid UTF-8, an empty value)
    // next to the implicit directories: the env directories stay byte for byte what they were
    {
        use std::os::unix::ffi::OsStrExt;
        r.evaluations += 1; r.nontrivial += 1;
        let t = tempfile::tempdir().unwrap(); let l = t.path().join("layer");
        for d in ["bin", "lib", "include", "pkgconfig", "env", "env.build", "env.launch/web", "env.launch/worker"] { fs::create_dir_all(l.join(d)).unwrap(); }
        fs::write(l.join("env/GREETING.override"), b"caf\xe9").unwrap(); fs::write(l.join("env/PLAIN.default"), b"plain").unwrap(); fs::write(l.join("env/EMPTY.append"), b"").unwrap();
        fs::write(l.join("env.build/PATH.prepend"), b"/opt/x/bin").unwrap(); fs::write(l.join("env.build/PATH.delim"), b":").unwrap();
        fs::write(l.join("env.launch").join(std::ffi::OsStr::from_bytes(b"N\xffME.override")), b"\xff\xfe\n").unwrap();
        fs::write(l.join("env.launch/web/W.append"), b"w\x80").unwrap(); fs::write(l.join("env.launch/worker/LD_LIBRARY_PATH.override"), b"/only").unwrap();
        let before = snapshot(&l);
        for round in 1..=2 {
            match LayerEnv::read_from_layer_dir(&l).and_then(|le| le.write_to_layer_dir(&l)) {
                Err(e) => { r.violation("fixpoint", "read -> write failed", format!("round {round}"), "Ok".into(), e.to_string()); break; }
                Ok(()) => if snapshot(&l) != before {
                    let after = snapshot(&l);
                    let diff: Vec<String> = before.iter().filter(|x| !after.contains(x)).map(|x| format!("before {x:?}")).chain(after.iter().filter(|x| !before.contains(x)).map(|x| format!("after {x:?}"))).take(6).collect();
                    r.violation("fixpoint", "read -> write changed a layer directory that has explicit environment files (non-UTF-8 values / names, empty value, all scopes) next to bin/ lib/ include/ pkgconfig/", format!("round {round}: env/GREETING.override = 63 61 66 E9, env.launch/N\\xFFME.override = FF FE 0A, env.launch/web/W.append = 77 80, .."), "unchanged".into(), diff.join("; ")); break;
                }
            }
        }
    }
    r.samples.push("kinds [3,1,0,5]: bin -> link to dir, lib dir, include absent, pkgconfig dangling".into());
    r
}
fn snapshot(root: &Path) -> Vec<(PathBuf, String)> {
    let mut v = vec![];
    fn go(root: &Path, p: &Path, v: &mut Vec<(PathBuf, String)>) {
        for e in fs::read_dir(p).unwrap() { let e = e.unwrap(); let path = e.path(); let ft = e.file_type().unwrap();
            let d = if ft.is_symlink() { format!("link:{:?}", fs::read_link(&path).unwrap()) } else if ft.is_dir() { "dir".into() } else { format!("file:{:?}", fs::read(&path).unwrap()) };
            v.push((path.strip_prefix(root).unwrap().to_path_buf(), d)); if ft.is_dir() { go(root, &path, v); } }
    }
    go(root, root, &mut v); v.sort(); v
}
