// C01 witness search: sequences of struct-API layer requests with simulated lifecycle restores in between, on a real tempdir.
use crate::Report;
use crate::c11::{ctx, snapshot, B};
use libcnb::build::BuildContext;
use libcnb::data::layer_name;
use libcnb::generic::GenericMetadata;
use libcnb::layer::{CachedLayerDefinition, EmptyLayerCause, InvalidMetadataAction, LayerState, RestoredLayerAction, UncachedLayerDefinition};
use libcnb::layer_env::{LayerEnv, ModificationBehavior, Scope};
use libcnb::sbom::Sbom;
use libcnb::data::sbom::SbomFormat;
use serde::{Deserialize, Serialize};
use std::fs;
use std::path::Path;

#[derive(Serialize, Deserialize, Debug, Clone, PartialEq)]
struct Rich { version: String, checksum: String }
#[derive(Serialize, Deserialize, Debug, Clone, PartialEq)]
struct Narrow { version: String }

#[derive(Clone, Copy, Debug)]
enum Req { Uncached { launch: bool }, CachedKeep { launch: bool, narrow: bool }, CachedDelete, CachedInvalidDelete, CachedInvalidReplace }
#[derive(Clone, Copy, Debug)]
enum Fill { Nothing, Everything }
#[derive(Clone, Copy, Debug)]
enum Restore { CacheKeepsAll, LaunchOnlyKeepsToml, Vanish, SameBuild }

fn types_of(layers: &Path) -> Option<(bool, bool, bool)> {
    let v: toml::Value = toml::from_str(&fs::read_to_string(layers.join("x.toml")).ok()?).ok()?;
    let t = v.get("types")?;
    Some((t.get("launch").and_then(|b| b.as_bool()).unwrap_or(false), t.get("build").and_then(|b| b.as_bool()).unwrap_or(false), t.get("cache").and_then(|b| b.as_bool()).unwrap_or(false)))
}
fn metadata_of(layers: &Path) -> Option<toml::Value> {
    let v: toml::Value = toml::from_str(&fs::read_to_string(layers.join("x.toml")).ok()?).ok()?;
    v.get("metadata").cloned()
}

pub fn layers(thorough: bool) -> Report {
    let depth = if thorough { 3 } else { 2 };
    let mut r = Report::new(
        "witness search on a real tempdir: every sequence of `depth` builds over {uncached(launch?), cached+Keep (same or NARROWER metadata type), cached+Delete, cached with metadata that no longer parses + Delete / Replace} x {write nothing, write metadata+env(all scopes)+SBOM+exec.d+file} x what happens before the next request {cache restore keeps dir+toml without types, launch-only restore keeps toml only, everything vanishes, NOTHING (next request in the same build)}; after every request: directory present, toml declares exactly the requested flags, Restored/Empty as decided, a Restored layer kept every file/SBOM/metadata value, an Empty layer has no file/SBOM/metadata, the sibling layer is untouched; non-trivial = sequences with at least one restored layer",
        &(if depth >= 3 { format!("depth {depth}, every 6th sequence of the enumeration (all of depth 2 are in the quick tier)") } else { format!("depth {depth}") }),
    );
    let reqs = [Req::Uncached { launch: true }, Req::Uncached { launch: false }, Req::CachedKeep { launch: true, narrow: false }, Req::CachedKeep { launch: false, narrow: true }, Req::CachedDelete, Req::CachedInvalidDelete, Req::CachedInvalidReplace];
    let fills = [Fill::Nothing, Fill::Everything];
    let restores = [Restore::CacheKeepsAll, Restore::LaunchOnlyKeepsToml, Restore::Vanish, Restore::SameBuild];
    let steps: Vec<(Req, Fill, Restore)> = { let mut v = vec![]; for a in reqs { for b in fills { for c in restores { v.push((a, b, c)); } } } v };
    let mut idx = vec![0usize; depth];
    let mut counter = 0usize;
    loop {
        counter += 1;
        // depth 3 is sampled (every 6th sequence in enumeration order: about 29000 of 175616); depth 2 is exhaustive
        if depth >= 3 && counter % 6 != 0 { let mut p = depth; let mut done = false; loop { if p == 0 { done = true; break; } p -= 1; idx[p] += 1; if idx[p] < steps.len() { break; } idx[p] = 0; } if done { dotted_names(&mut r); r.samples.push("uncached(launch) +everything, cache restore, cached Keep with a narrower metadata type".into()); return r; } continue; }
        r.evaluations += 1;
        let seq: Vec<_> = idx.iter().map(|&i| steps[i]).collect();
        run_sequence(&seq, &mut r);
        let mut p = depth;
        loop { if p == 0 { dotted_names(&mut r); r.samples.push("uncached(launch) +everything, cache restore, cached Keep with a narrower metadata type".into()); return r; } p -= 1; idx[p] += 1; if idx[p] < steps.len() { break; } idx[p] = 0; }
    }
}

fn run_sequence(seq: &[(Req, Fill, Restore)], r: &mut Report) {
    let t = tempfile::tempdir().unwrap(); let layers = t.path().join("layers"); fs::create_dir_all(layers.join("y/bin")).unwrap();
    fs::write(layers.join("y/bin/tool"), b"t").unwrap(); fs::write(layers.join("y.toml"), b"[types]\nlaunch = true\n").unwrap(); fs::write(layers.join("y.sbom.cdx.json"), b"{}").unwrap();
    let c: BuildContext<B> = ctx(&layers);
    let skip = vec![layers.join("x"), layers.join("x.toml"), layers.join("x.sbom.cdx.json"), layers.join("x.sbom.spdx.json"), layers.join("x.sbom.syft.json")];
    let mut restored_seen = false;
    for (step, (req, fill, restore)) in seq.iter().enumerate() {
        let desc = format!("sequence {seq:?}, failing at step {step}");
        let outside_before = snapshot(&layers, &skip);
        let existed = layers.join("x").is_dir();
        let before_layer = snapshot(&layers.join("x"), &[]);
        let before_sboms: Vec<bool> = ["cdx", "spdx", "syft"].iter().map(|f| layers.join(format!("x.sbom.{f}.json")).exists()).collect();
        let before_meta = metadata_of(&layers);
        // make the metadata unparsable for the "invalid metadata" requests (a previous build wrote another shape)
        if matches!(req, Req::CachedInvalidDelete | Req::CachedInvalidReplace) && existed { fs::write(layers.join("x.toml"), "[metadata]\nunexpected = 1\n").unwrap(); }
        let meta_parses_rich = fs::read_to_string(layers.join("x.toml")).ok().map(|s| toml::from_str::<libcnb::data::layer_content_metadata::LayerContentMetadata<Rich>>(&s).is_ok());
        let (want_types, state): ((bool, bool, bool), Result<LayerState<(), ()>, String>) = match req {
            Req::Uncached { launch } => ((*launch, true, false), c.uncached_layer(layer_name!("x"), UncachedLayerDefinition { build: true, launch: *launch }).map(|l| l.state).map_err(|e| e.to_string())),
            Req::CachedKeep { launch, narrow: false } => ((*launch, false, true), c.cached_layer(layer_name!("x"), CachedLayerDefinition { build: false, launch: *launch,
                invalid_metadata_action: &|_| InvalidMetadataAction::DeleteLayer, restored_layer_action: &|_: &Rich, _| RestoredLayerAction::KeepLayer }).map(|l| l.state).map_err(|e| e.to_string())),
            Req::CachedKeep { launch, narrow: true } => ((*launch, false, true), c.cached_layer(layer_name!("x"), CachedLayerDefinition { build: false, launch: *launch,
                invalid_metadata_action: &|_| InvalidMetadataAction::DeleteLayer, restored_layer_action: &|_: &Narrow, _| RestoredLayerAction::KeepLayer }).map(|l| l.state).map_err(|e| e.to_string())),
            Req::CachedDelete => ((true, true, true), c.cached_layer(layer_name!("x"), CachedLayerDefinition { build: true, launch: true,
                invalid_metadata_action: &|_| InvalidMetadataAction::DeleteLayer, restored_layer_action: &|_: &GenericMetadata, _| RestoredLayerAction::DeleteLayer }).map(|l| l.state).map_err(|e| e.to_string())),
            Req::CachedInvalidDelete => ((true, true, true), c.cached_layer(layer_name!("x"), CachedLayerDefinition { build: true, launch: true,
                invalid_metadata_action: &|_| InvalidMetadataAction::DeleteLayer, restored_layer_action: &|_: &Rich, _| RestoredLayerAction::KeepLayer }).map(|l| l.state).map_err(|e| e.to_string())),
            Req::CachedInvalidReplace => ((true, true, true), c.cached_layer(layer_name!("x"), CachedLayerDefinition { build: true, launch: true,
                invalid_metadata_action: &|_| InvalidMetadataAction::ReplaceMetadata(Rich { version: "m".into(), checksum: "m".into() }), restored_layer_action: &|_: &Rich, _| RestoredLayerAction::KeepLayer }).map(|l| l.state).map_err(|e| e.to_string())),
        };
        let state = match state { Ok(s) => s, Err(e) => { r.violation("request_failed", "layer request failed on a well-formed layers directory", desc, "Ok".into(), e); return; } };
        // every request: directory present, flags exact, siblings untouched
        if !layers.join("x").is_dir() { r.violation("dir_present", "layer directory missing after the request", desc.clone(), "dir".into(), "missing".into()); }
        if types_of(&layers) != Some(want_types) { r.violation("types_exact", "content metadata does not declare exactly the requested (launch, build, cache)", desc.clone(), format!("{want_types:?}"), format!("{:?}", types_of(&layers))); }
        if snapshot(&layers, &skip) != outside_before { r.violation("others_untouched", "another layer / file outside the layer changed", desc.clone(), "unchanged".into(), "changed".into()); }
        // state as decided by the callbacks
        let rich_ok = meta_parses_rich == Some(true);
        let narrow_ok = fs::read_to_string(layers.join("x.toml")).is_ok();
        let _ = narrow_ok;
        let expect_restored = existed && match req { Req::CachedKeep { narrow: false, .. } => rich_ok, Req::CachedKeep { narrow: true, .. } => before_meta.as_ref().map(|m| m.get("version").is_some()).unwrap_or(false), Req::CachedInvalidReplace => true, _ => false };
        match (&state, expect_restored) {
            (LayerState::Restored { .. }, true) => {
                restored_seen = true;
                if snapshot(&layers.join("x"), &[]) != before_layer { r.violation("restored_keeps_files", "a restored layer lost or changed files", desc.clone(), "same tree".into(), "different".into()); }
                let after_sboms: Vec<bool> = ["cdx", "spdx", "syft"].iter().map(|f| layers.join(format!("x.sbom.{f}.json")).exists()).collect();
                if after_sboms != before_sboms { r.violation("restored_keeps_sboms", "a restored layer lost SBOM files", desc.clone(), format!("{before_sboms:?}"), format!("{after_sboms:?}")); }
                if !matches!(req, Req::CachedInvalidReplace) && metadata_of(&layers) != before_meta { r.violation("restored_keeps_metadata", "a restored layer lost metadata values the previous build left", desc.clone(), format!("{before_meta:?}"), format!("{:?}", metadata_of(&layers))); }
            }
            (LayerState::Empty { cause }, false) => {
                if fs::read_dir(layers.join("x")).map(|mut d| d.next().is_some()).unwrap_or(true) { r.violation("empty_has_no_files", "a layer reported empty still has files", desc.clone(), "empty".into(), "files".into()); }
                if ["cdx", "spdx", "syft"].iter().any(|f| layers.join(format!("x.sbom.{f}.json")).exists()) && existed { r.violation("empty_has_no_sbom", "a layer reported empty still has SBOM files", desc.clone(), "none".into(), "present".into()); }
                if metadata_of(&layers).map(|m| m.as_table().map(|t| !t.is_empty()).unwrap_or(true)).unwrap_or(false) { r.violation("empty_has_no_metadata", "a layer reported empty still has metadata", desc.clone(), "none".into(), format!("{:?}", metadata_of(&layers))); }
                let newly = matches!(cause, EmptyLayerCause::NewlyCreated);
                if newly == existed { r.violation("cause", "NewlyCreated must be reported exactly when the layer did not exist", desc.clone(), format!("existed={existed}"), format!("{cause:?}")); }
            }
            (s, e) => { r.violation("state", "reported state differs from what the callbacks decided", desc.clone(), format!("restored={e}"), format!("{s:?}")); }
        }
        // the buildpack fills the layer
        if let Fill::Everything = fill {
            let l = c.uncached_layer(layer_name!("y"), UncachedLayerDefinition { build: true, launch: true }); let _ = l; // sibling request must not disturb x either
            fs::write(layers.join("y/bin/tool"), b"t").ok(); fs::create_dir_all(layers.join("y/bin")).ok(); fs::write(layers.join("y/bin/tool"), b"t").unwrap(); fs::write(layers.join("y.toml"), b"[types]\nlaunch = true\n").unwrap(); fs::write(layers.join("y.sbom.cdx.json"), b"{}").unwrap();
            let lr = c.cached_layer(layer_name!("x"), CachedLayerDefinition { build: want_types.1, launch: want_types.0, invalid_metadata_action: &|_| InvalidMetadataAction::DeleteLayer, restored_layer_action: &|_: &GenericMetadata, _| RestoredLayerAction::KeepLayer });
            if let Ok(lr) = lr {
                // a long value first, then the short one: the metadata file holds exactly the LAST metadata written (nothing of the longer text survives)
                lr.write_metadata(Rich { version: "1".into(), checksum: "z".repeat(300) }).unwrap();
                lr.write_metadata(Rich { version: "1".into(), checksum: "abc".into() }).unwrap();
                let want: toml::Value = toml::Value::try_from(Rich { version: "1".into(), checksum: "abc".into() }).unwrap();
                if metadata_of(&layers).as_ref() != Some(&want) { r.violation("metadata_rewritten_shorter", "after write_metadata the layer's metadata file holds exactly the metadata written last (also when it is shorter than what was there)", format!("sequence {seq:?}, step {step}: write_metadata(checksum = 300 x 'z') then write_metadata(checksum = \"abc\")"), format!("{want:?}"), format!("{:?} (file: {:?})", metadata_of(&layers), fs::read_to_string(layers.join("x.toml")).unwrap_or_default().chars().take(200).collect::<String>())); }
                // a metadata write that FAILS (the value cannot be written as TOML) leaves the content-metadata file as it was: flags and last metadata intact
                {
                    #[derive(Serialize)] struct Big { n: u64 }
                    let before_file = fs::read(layers.join("x.toml")).ok();
                    if lr.write_metadata(Big { n: u64::MAX }).is_err() && fs::read(layers.join("x.toml")).ok() != before_file {
                        r.violation("failed_metadata_write", "a write_metadata call that returns an error leaves the layer's content-metadata file (requested flags, metadata written last) as it was", format!("sequence {seq:?}, step {step}: write_metadata(n = u64::MAX) -> Err"), String::from_utf8_lossy(&before_file.unwrap_or_default()).to_string(), fs::read_to_string(layers.join("x.toml")).unwrap_or_else(|e| e.to_string()));
                    }
                }
                let mut env = LayerEnv::new(); env.insert(Scope::All, ModificationBehavior::Override, "A", "1"); env.insert(Scope::Process("web".into()), ModificationBehavior::Append, "B", "2");
                lr.write_env(env).unwrap();
                // LayerRef::write_sboms REPLACES the layer's SBOMs: afterwards exactly the given formats exist
                let have = |l: &Path| -> Vec<bool> { ["cdx", "spdx", "syft"].iter().map(|f| l.join(format!("x.sbom.{f}.json")).exists()).collect() };
                for (set, want) in [(vec![SbomFormat::CycloneDxJson, SbomFormat::SyftJson], vec![true, false, true]), (vec![], vec![false, false, false]), (vec![SbomFormat::SpdxJson], vec![false, true, false])] {
                    let sb: Vec<Sbom> = set.iter().map(|f| Sbom::from_bytes(f.clone(), "{}")).collect();
                    lr.write_sboms(&sb).unwrap();
                    if have(&layers) != want { r.violation("write_sboms_exact", "after LayerRef::write_sboms exactly the given SBOM formats exist", format!("sequence {seq:?}, step {step}: write_sboms({set:?}) after earlier SBOMs"), format!("{want:?} (cdx, spdx, syft)"), format!("{:?}", have(&layers))); }
                }
                fs::write(lr.path().join("payload"), b"data").unwrap();
                // a link into another layer that a restore may leave dangling, and one that dangles right away
                let _ = std::os::unix::fs::symlink("../y/bin/tool", lr.path().join("current"));
                let _ = std::os::unix::fs::symlink("../gone/never-there", lr.path().join("a-dangling"));
                fs::create_dir_all(lr.path().join("zz/deep")).unwrap(); fs::write(lr.path().join("zz/deep/last"), b"l").unwrap();
            }
        }
        // lifecycle between builds
        match restore {
            Restore::CacheKeepsAll => { if let Ok(s) = fs::read_to_string(layers.join("x.toml")) { let mut v: toml::Value = toml::from_str(&s).unwrap(); v.as_table_mut().unwrap().remove("types"); fs::write(layers.join("x.toml"), toml::to_string(&v).unwrap()).unwrap(); } }
            Restore::LaunchOnlyKeepsToml => { let _ = fs::remove_dir_all(layers.join("x")); for f in ["cdx", "spdx", "syft"] { let _ = fs::remove_file(layers.join(format!("x.sbom.{f}.json"))); } }
            Restore::SameBuild => {}   // the next request happens in the SAME build: nothing is stripped or removed in between
            Restore::Vanish => { let _ = fs::remove_dir_all(layers.join("x")); let _ = fs::remove_file(layers.join("x.toml")); for f in ["cdx", "spdx", "syft"] { let _ = fs::remove_file(layers.join(format!("x.sbom.{f}.json"))); } }
        }
    }
    if restored_seen { r.nontrivial += 1; }
}

// layer names may contain dots: the metadata file of `ruby.gems` is ruby.gems.toml, never ruby.toml (a sibling layer's file)
fn dotted_names(r: &mut Report) {
    for (first, second) in [("ruby", "ruby.gems"), ("jdk-17.0", "jdk-17.0.9"), ("ruby.gems", "ruby")] {
        r.evaluations += 1; r.nontrivial += 1;
        let t = tempfile::tempdir().unwrap(); let layers = t.path().join("layers"); fs::create_dir_all(&layers).unwrap();
        let c: BuildContext<B> = ctx(&layers);
        let a = c.cached_layer(first.parse::<libcnb::data::layer::LayerName>().unwrap(), CachedLayerDefinition { build: true, launch: false, invalid_metadata_action: &|_| InvalidMetadataAction::DeleteLayer, restored_layer_action: &|_: &GenericMetadata, _| RestoredLayerAction::KeepLayer });
        let Ok(a) = a else { r.violation("dotted_names", "request for a layer failed", format!("{first}"), "Ok".into(), "Err".into()); continue; };
        a.write_metadata(Rich { version: "3.3".into(), checksum: "c".into() }).unwrap();
        let before = fs::read_to_string(layers.join(format!("{first}.toml"))).unwrap_or_default();
        let b = c.uncached_layer(second.parse::<libcnb::data::layer::LayerName>().unwrap(), UncachedLayerDefinition { build: false, launch: true });
        let input = format!("cached_layer({first:?}, build) + write_metadata, then uncached_layer({second:?}, launch)");
        if b.is_err() { r.violation("dotted_names", "request for a layer with a dotted name failed", input, "Ok".into(), "Err".into()); continue; }
        let own: Option<toml::Value> = fs::read_to_string(layers.join(format!("{second}.toml"))).ok().and_then(|s| toml::from_str(&s).ok());
        let own_types = own.as_ref().and_then(|v| v.get("types")).map(|t| (t.get("launch").and_then(|b| b.as_bool()).unwrap_or(false), t.get("build").and_then(|b| b.as_bool()).unwrap_or(false), t.get("cache").and_then(|b| b.as_bool()).unwrap_or(false)));
        if own_types != Some((true, false, false)) { r.violation("dotted_names", "the layer's OWN metadata file <name>.toml declares exactly the requested flags", input.clone(), format!("{second}.toml: launch only"), format!("{own_types:?}")); }
        if fs::read_to_string(layers.join(format!("{first}.toml"))).unwrap_or_default() != before { r.violation("dotted_names", "a layer whose name shares a prefix up to a dot is not touched", input, "unchanged".into(), "changed".into()); }
    }
}
