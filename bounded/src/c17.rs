// C17 witness search / bounded complement: the REAL docker.rs / pack.rs of libcnb-test (included by path; the command structs are
// crate-private) render configurations to argv; an INDEPENDENT parser written after docker's / pack's option grammar (options
// with values, boolean flags, `--opt=value` form, first non-option token = image, the rest = command) recovers the configuration.
#[path = "/repo/libcnb-test/src/docker.rs"]
#[allow(dead_code, unused_imports, clippy::all)]
mod docker;
#[path = "/repo/libcnb-test/src/pack.rs"]
#[allow(dead_code, unused_imports, clippy::all)]
mod pack;
use crate::Report;
use std::collections::BTreeMap;
use std::path::PathBuf;
use std::process::Command;

#[derive(Debug, PartialEq, Default)]
struct Run { name: Option<String>, detach: bool, rm: bool, platform: Option<String>, entrypoint: Option<String>, env: BTreeMap<String, String>, ports: Vec<u16>, mounts: Vec<(String, String)>, image: String, command: Vec<String> }

fn argv(c: &Command) -> Vec<String> { c.get_args().map(|a| a.to_string_lossy().to_string()).collect() }

fn parse_run(a: &[String]) -> Result<Run, String> {
    if a.first().map(String::as_str) != Some("run") { return Err("not a run command".into()); }
    let mut r = Run::default(); let mut i = 1;
    while i < a.len() {
        let t = &a[i];
        if !t.starts_with('-') { break; }
        let (opt, inline) = match t.split_once('=') { Some((o, v)) if o.starts_with("--") => (o.to_string(), Some(v.to_string())), _ => (t.clone(), None) };
        let flag = matches!(opt.as_str(), "--detach" | "-d" | "--rm");
        let val = if flag { None } else if let Some(v) = inline { Some(v) } else { i += 1; Some(a.get(i).ok_or(format!("option {opt} without value"))?.clone()) };
        match opt.as_str() {
            "--detach" | "-d" => r.detach = true, "--rm" => r.rm = true,
            "--name" => r.name = val, "--platform" => r.platform = val, "--entrypoint" => r.entrypoint = val,
            "--env" | "-e" => { let v = val.unwrap(); let (k, x) = v.split_once('=').map(|(k, x)| (k.to_string(), x.to_string())).unwrap_or((v.clone(), String::new())); r.env.insert(k, x); }
            "--publish" | "-p" => { let v = val.unwrap(); r.ports.push(v.rsplit(':').next().unwrap().parse().map_err(|_| format!("bad publish {v}"))?); }
            "--mount" => { let v = val.unwrap(); let mut s = String::new(); let mut t2 = String::new(); for kv in v.split(',') { if let Some(x) = kv.strip_prefix("source=") { s = x.into(); } if let Some(x) = kv.strip_prefix("target=") { t2 = x.into(); } } r.mounts.push((s, t2)); }
            other => return Err(format!("unknown option {other}")),
        }
        i += 1;
    }
    r.image = a.get(i).ok_or("no image")?.clone();
    r.command = a[i + 1..].to_vec();
    Ok(r)
}

#[derive(Debug, PartialEq, Default)]
struct Build { image: String, builder: Option<String>, caches: Vec<String>, path: Option<String>, pull_policy: Option<String>, buildpacks: Vec<String>, env: BTreeMap<String, String>, env_count: usize, trust_builder: bool, trust_extra: bool }
fn parse_build(a: &[String]) -> Result<Build, String> {
    if a.first().map(String::as_str) != Some("build") { return Err("not a build command".into()); }
    let mut b = Build::default(); let mut i = 1; let mut positional = vec![];
    while i < a.len() {
        let t = &a[i];
        if !t.starts_with("--") { positional.push(t.clone()); i += 1; continue; }
        let (opt, inline) = match t.split_once('=') { Some((o, v)) => (o.to_string(), Some(v.to_string())), None => (t.clone(), None) };
        let flag = matches!(opt.as_str(), "--trust-builder" | "--trust-extra-buildpacks");
        let val = if flag { None } else if let Some(v) = inline { Some(v) } else { i += 1; Some(a.get(i).ok_or(format!("option {opt} without value"))?.clone()) };
        match opt.as_str() {
            "--trust-builder" => b.trust_builder = true, "--trust-extra-buildpacks" => b.trust_extra = true,
            "--builder" => b.builder = val, "--cache" => b.caches.push(val.unwrap()), "--path" => b.path = val, "--pull-policy" => b.pull_policy = val,
            "--buildpack" => b.buildpacks.push(val.unwrap()),
            "--env" => { let v = val.unwrap(); let (k, x) = v.split_once('=').map(|(k, x)| (k.to_string(), x.to_string())).unwrap_or((v.clone(), String::new())); b.env.insert(k, x); b.env_count += 1; }
            other => return Err(format!("unknown option {other}")),
        }
        i += 1;
    }
    if positional.len() != 1 { return Err(format!("expected exactly one image name, got {positional:?}")); }
    b.image = positional.remove(0);
    Ok(b)
}

pub fn argv_roundtrip(thorough: bool) -> Report {
    let mut r = Report::new(
        "the real DockerRunCommand / PackBuildCommand setters and From<..> for Command over the product of: entrypoint {none, empty, plain, with space} x command {none, one word, words starting with '-', empty and spaced words} x detach x remove x platform {none, set} x env {none, one, values with '=' and spaces / empty value / key looking like an option} x exposed ports {none, one, two} x bind mounts {none, one}; pack build: buildpack lists (ids and paths, order matters, duplicates) x env sets: the rendered argv parsed back by an independent implementation of docker's / pack's option grammar equals the configuration (entrypoint incl. the empty one, command words in order after the image, every env pair once, ports, buildpacks in order, builder, path, image, caches, trust flags); non-trivial = configurations with at least one optional part",
        if thorough { "full product (2880 docker run + 48 pack build configurations)" } else { "full product (2880 docker run + 48 pack build configurations)" },
    );
    let entrypoints: [Option<&str>; 4] = [None, Some(""), Some("/bin/sh"), Some("with space")];
    let commands: [Option<Vec<&str>>; 5] = [None, Some(vec!["a"]), Some(vec!["--detach", "-x"]), Some(vec!["", "x y"]), Some(vec!["echo", "a=b"])];
    let envs: [Vec<(&str, &str)>; 3] = [vec![], vec![("A", "1")], vec![("A", "a=b c"), ("B", ""), ("--name", "x")]];
    let ports: [Vec<u16>; 3] = [vec![], vec![80], vec![8080, 80]];
    for ep in &entrypoints { for cmd in &commands { for detach in [false, true] { for rm in [false, true] { for platform in [None, Some("linux/amd64")] { for env in &envs { for ps in &ports { for mount in [false, true] {
        r.evaluations += 1;
        if ep.is_some() || cmd.is_some() || detach || rm || platform.is_some() || !env.is_empty() || !ps.is_empty() || mount { r.nontrivial += 1; }
        let mut c = docker::DockerRunCommand::new("my-image", "my-container");
        if let Some(e) = ep { c.entrypoint(*e); }
        if let Some(cm) = cmd { c.command(cm.clone()); }
        c.detach(detach).remove(rm);
        if let Some(p) = platform { c.platform(p); }
        for (k, v) in env { c.env(*k, *v); }
        for p in ps { c.expose_port(*p); }
        if mount { c.bind_mount(PathBuf::from("/src dir"), PathBuf::from("/dst")); }
        let want = Run { name: Some("my-container".into()), detach, rm, platform: platform.map(String::from), entrypoint: ep.map(String::from),
            env: env.iter().map(|(k, v)| (k.to_string(), v.to_string())).collect(), ports: { let mut s = ps.clone(); s.sort(); s },
            mounts: if mount { vec![("/src dir".into(), "/dst".into())] } else { vec![] }, image: "my-image".into(), command: cmd.clone().unwrap_or_default().into_iter().map(String::from).collect() };
        let a = argv(&Command::from(c));
        let input = format!("docker run: entrypoint {ep:?} command {cmd:?} detach {detach} rm {rm} platform {platform:?} env {env:?} ports {ps:?} mount {mount} -> argv {a:?}");
        match parse_run(&a) {
            Ok(got) if got == want => {}
            Ok(got) => r.violation("docker_run", "docker's option grammar does not recover the container configuration from the rendered argv", input, format!("{want:?}"), format!("{got:?}")),
            Err(e) => r.violation("docker_run", "the rendered argv is not a well-formed docker run invocation", input, format!("{want:?}"), e),
        }
    } } } } } } } }
    let bps: [Vec<(bool, &str)>; 4] = [vec![], vec![(true, "heroku/procfile")], vec![(false, "/bp dir/b"), (true, "z/last"), (true, "a/first")], vec![(true, "dup/x"), (true, "dup/x")]];
    for bp in &bps { for env in &envs { for path in ["/app", "/tmp/app copy"] { for builder in ["heroku/builder:24", "b"] {
        r.evaluations += 1; r.nontrivial += 1;
        let mut c = pack::PackBuildCommand::new(builder, path, "img", "build-vol", "launch-vol");
        for (is_id, v) in bp { if *is_id { c.buildpack(pack::BuildpackReference::Id((*v).into())); } else { c.buildpack(PathBuf::from(*v)); } }
        for (k, v) in env { c.env(*k, *v); }
        let a = argv(&Command::from(c));
        let want = Build { image: "img".into(), builder: Some(builder.into()), caches: vec!["type=build;format=volume;name=build-vol".into(), "type=launch;format=volume;name=launch-vol".into()], path: Some(path.into()),
            pull_policy: Some("if-not-present".into()), buildpacks: bp.iter().map(|(_, v)| v.to_string()).collect(), env: env.iter().map(|(k, v)| (k.to_string(), v.to_string())).collect(), env_count: env.len(), trust_builder: true, trust_extra: true };
        let input = format!("pack build: builder {builder:?} path {path:?} buildpacks {bp:?} env {env:?} -> argv {a:?}");
        match parse_build(&a) {
            Ok(got) if got == want => {}
            Ok(got) => r.violation("pack_build", "pack's option grammar does not recover the build configuration from the rendered argv", input, format!("{want:?}"), format!("{got:?}")),
            Err(e) => r.violation("pack_build", "the rendered argv is not a well-formed pack build invocation", input, format!("{want:?}"), e),
        }
    } } } }
    r.sample("entrypoint Some(\"\") -> [.., \"--entrypoint\", \"\", ..]: an empty entrypoint resets the image's entrypoint and must be kept".into());
    r
}
