// C17 witness search / bounded complement: the REAL docker.rs / pack.rs of libcnb-test (included by path; the command structs are
// crate-private) render configurations to argv; an INDEPENDENT parser written after docker's / pack's option grammar (options
// with values, boolean flags, `--opt=value` form, first non-option token = image, the rest = command) recovers the configuration.
#[path = "/repo/libcnb-test/src/docker.rs"]
#[allow(dead_code, unused_imports, clippy::all)]
mod docker;
#[path = "/repo/libcnb-test/src/pack.rs"]
#[allow(dead_code, unused_imports, clippy::all)]
mod pack;
use crate::Report;
use std::collections::BTreeMap;
use std::path::PathBuf;
use std::process::Command;

#[derive(Debug, PartialEq, Default)]
struct Run { name: Option<String>, detach: bool, rm: bool, platform: Option<String>, entrypoint: Option<String>, env: BTreeMap<String, String>, ports: Vec<u16>, mounts: Vec<(String, String)>, image: String, command: Vec<String> }

fn argv(c: &Command) -> Vec<String> { c.get_args().map(|a| a.to_string_lossy().to_string()).collect() }

fn parse_run(a: &[String]) -> Result<Run, String> {
    if a.first().map(String::as_str) != Some("run") { return Err("not a run command".into()); }
    let mut r = Run::default(); let mut i = 1;
    while i < a.len() {
        let t = &a[i];
        if !t.starts_with('-') { break; }
        let (opt, inline) = match t.split_once('=') { Some((o, v)) if o.starts_with("--") => (o.to_string(), Some(v.to_string())), _ => (t.clone(), None) };
        let flag = matches!(opt.as_str(), "--detach" | "-d" | "--rm");
        let val = if flag { None } else if let Some(v) = inline { Some(v) } else { i += 1; Some(a.get(i).ok_or(format!("option {opt} without value"))?.clone()) };
        match opt.as_str() {
            "--detach" | "-d" => r.detach = true, "--rm" => r.rm = true,
            "--name" => r.name = val, "--platform" => r.platform = val, "--entrypoint" => r.entrypoint = val,
            "--env" | "-e" => { let v = val.unwrap(); let (k, x) = v.split_once('=').map(|(k, x)| (k.to_string(), x.to_string())).unwrap_or((v.clone(), String::new())); r.env.insert(k, x); }
            "--publish" | "-p" => { let v = val.unwrap(); r.ports.push(v.rsplit(':').next().unwrap().parse().map_err(|_| format!("bad publish {v}"))?); }
            "--mount" => { let v = val.unwrap(); let mut s = String::new(); let mut t2 = String::new(); for kv in v.split(',') { if let Some(x) = kv.strip_prefix("source=") { s = x.into(); } if let Some(x) = kv.strip_prefix("target=") { t2 = x.into(); } } r.mounts.push((s, t2)); }
            other => return Err(format!("unknown option {other}")),
        }
        i += 1;
    }
    r.image = a.get(i).ok_or("no image")?.clone();
    r.command = a[i + 1..].to_vec();
    Ok(r)
}

#[derive(Debug, PartialEq, Default)]
struct Build { image: String, builder: Option<String>, caches: Vec<String>, path: Option<String>, pull_policy: Option<String>, buildpacks: Vec<String>, env: BTreeMap<String, String>, env_count: usize, trust_builder: bool, trust_extra: bool }
fn parse_build(a: &[String]) -> Result<Build, String> {
    if a.first().map(String::as_str) != Some("build") { return Err("not a build command".into()); }
    let mut b = Build::default(); let mut i = 1; let mut positional = vec![];
    while i < a.len() {
        let t = &a[i];
        if !t.starts_with("--") { positional.push(t.clone()); i += 1; continue; }
        let (opt, inline) = match t.split_once('=') { Some((o, v)) => (o.to_string(), Some(v.to_string())), None => (t.clone(), None) };
        let flag = matches!(opt.as_str(), "--trust-builder" | "--trust-extra-buildpacks");
        let val = if flag { None } else if let Some(v) = inline { Some(v) } else { i += 1; Some(a.get(i).ok_or(format!("option {opt} without value"))?.clone()) };
        match opt.as_str() {
            "--trust-builder" => b.trust_builder = true, "--trust-extra-buildpacks" => b.trust_extra = true,
            "--builder" => b.builder = val, "--cache" => b.caches.push(val.unwrap()), "--path" => b.path = val, "--pull-policy" => b.pull_policy = val,
            "--buildpack" => b.buildpacks.push(val.unwrap()),
            "--env" => { let v = val.unwrap(); let (k, x) = v.split_once('=').map(|(k, x)| (k.to_string(), x.to_string())).unwrap_or((v.clone(), String::new())); b.env.insert(k, x); b.env_count += 1; }
            other => return Err(format!("unknown option {other}")),
        }
        i += 1;
    }
    if positional.len() != 1 { return Err(format!("expected exactly one image name, got {positional:?}")); }
    b.image = positional.remove(0);
    Ok(b)
}

pub fn argv_roundtrip(thorough: bool) -> Report {
    let mut r = Report::new(
        "the real DockerRunCommand / PackBuildCommand setters and From<..> for Command over the product of: entrypoint {none, empty, plain, with space} x command {none, one word, words starting with '-', empty and spaced words} x detach x remove x platform {none, set} x env {none, one, values with '=' and spaces / empty value / key looking like an option} x exposed ports {none, one, two} x bind mounts {none, one}; pack build: buildpack lists (ids and paths, order matters, duplicates) x env sets: the rendered argv parsed back by an independent implementation of docker's / pack's option grammar equals the configuration (entrypoint incl. the empty one, command words in order after the image, every env pair once, ports, buildpacks in order, builder, path, image, caches, trust flags); non-trivial = configurations with at least one optional part",
        if thorough { "full product (2880 docker run + 48 pack build configurations)" } else { "full product (2880 docker run + 48 pack build configurations)" },
    );
    let entrypoints: [Option<&str>; 4] = [None, Some(""), Some("/bin/sh"), Some("with space")];
    let commands: [Option<Vec<&str>>; 5] = [None, Some(vec!["a"]), Some(vec!["--detach", "-x"]), Some(vec!["", "x y"]), Some(vec!["echo", "a=b"])];
    let envs: [Vec<(&str, &str)>; 3] = [vec![], vec![("A", "1")], vec![("A", "a=b c"), ("B", ""), ("--name", "x")]];
    let ports: [Vec<u16>; 3] = [vec![], vec![80], vec![8080, 80]];
    for ep in &entrypoints { for cmd in &commands { for detach in [false, true] { for rm in [false, true] { for platform in [None, Some("linux/amd64")] { for env in &envs { for ps in &ports { for mount in [false, true] {
        r.evaluations += 1;
        if ep.is_some() || cmd.is_some() || detach || rm || platform.is_some() || !env.is_empty() || !ps.is_empty() || mount { r.nontrivial += 1; }
        let mut c = docker::DockerRunCommand::new("my-image", "my-container");
        if let Some(e) = ep { c.entrypoint(*e); }
        if let Some(cm) = cmd { c.command(cm.clone()); }
        c.detach(detach).remove(rm);
        if let Some(p) = platform { c.platform(p); }
        for (k, v) in env { c.env(*k, *v); }
        for p in ps { c.expose_port(*p); }
        if mount { c.bind_mount(PathBuf::from("/src dir"), PathBuf::from("/dst")); }
        let want = Run { name: Some("my-container".into()), detach, rm, platform: platform.map(String::from), entrypoint: ep.map(String::from),
            env: env.iter().map(|(k, v)| (k.to_string(), v.to_string())).collect(), ports: { let mut s = ps.clone(); s.sort(); s },
            mounts: if mount { vec![("/src dir".into(), "/dst".into())] } else { vec![] }, image: "my-image".into(), command: cmd.clone().unwrap_or_default().into_iter().map(String::from).collect() };
        let a = argv(&Command::from(c));
        let input = format!("docker run: entrypoint {ep:?} command {cmd:?} detach {detach} rm {rm} platform {platform:?} env {env:?} ports {ps:?} mount {mount} -> argv {a:?}");
        match parse_run(&a) {
            Ok(got) if got == want => {}
            Ok(got) => r.violation("docker_run", "docker's option grammar does not recover the container configuration from the rendered argv", input, format!("{want:?}"), format!("{got:?}")),
            Err(e) => r.violation("docker_run", "the rendered argv is not a well-formed docker run invocation", input, format!("{want:?}"), e),
        }
    } } } } } } } }
    let bps: [Vec<(bool, &str)>; 4] = [vec![], vec![(true, "heroku/procfile")], vec![(false, "/bp dir/b"), (true, "z/last"), (true, "a/first")], vec![(true, "dup/x"), (true, "dup/x")]];
    for bp in &bps { for env in &envs { for path in ["/app", "/tmp/app copy"] { for builder in ["heroku/builder:24", "b"] {
        r.evaluations += 1; r.nontrivial += 1;
        let mut c = pack::PackBuildCommand::new(builder, path, "img", "build-vol", "launch-vol");
        for (is_id, v) in bp { if *is_id { c.buildpack(pack::BuildpackReference::Id((*v).into())); } else { c.buildpack(PathBuf::from(*v)); } }
        for (k, v) in env { c.env(*k, *v); }
        let a = argv(&Command::from(c));
        let want = Build { image: "img".into(), builder: Some(builder.into()), caches: vec!["type=build;format=volume;name=build-vol".into(), "type=launch;format=volume;name=launch-vol".into()], path: Some(path.into()),
            pull_policy: Some("if-not-present".into()), buildpacks: bp.iter().map(|(_, v)| v.to_string()).collect(), env: env.iter().map(|(k, v)| (k.to_string(), v.to_string())).collect(), env_count: env.len(), trust_builder: true, trust_extra: true };
        let input = format!("pack build: builder {builder:?} path {path:?} buildpacks {bp:?} env {env:?} -> argv {a:?}");
        match parse_build(&a) {
            Ok(got) if got == want => {}
            Ok(got) => r.violation("pack_build", "pack's option grammar does not recover the build configuration from the rendered argv", input, format!("{want:?}"), format!("{got:?}")),
            Err(e) => r.violation("pack_build", "the rendered argv is not a well-formed pack build invocation", input, format!("{want:?}"), e),
        }
    } } } }
    r.sample("entrypoint Some(\"\") -> [.., \"--entrypoint\", \"\", ..]: an empty entrypoint resets the image's entrypoint and must be kept".into());
    r
}

// ---- the glue: BuildConfig / ContainerConfig -> command structs -> processes (libcnb-test's public API, with `pack` and `docker`
// replaced by a recorder on PATH): every configuration must arrive in exactly one `pack build` / one `docker run` invocation
fn recorded(log: &std::path::Path) -> Vec<Vec<String>> {
    let raw = std::fs::read(log).unwrap_or_default();
    String::from_utf8_lossy(&raw).split("\n--END--\n").filter(|c| !c.trim().is_empty()).map(|c| c.trim_start_matches('\n').split('\0').filter(|a| !a.is_empty() || true).map(String::from).collect::<Vec<_>>()).map(|mut v| { if v.last().map(String::is_empty) == Some(true) { v.pop(); } v }).collect()
}
pub fn glue(_thorough: bool) -> Report {
    use libcnb_test::{BuildConfig, BuildpackReference, ContainerConfig, TestRunner};
    let mut r = Report::new(
        "libcnb-test's public API end to end with `pack` and `docker` replaced by argv recorders on PATH: TestRunner::build(BuildConfig {builder, app dir (fixture, or private copy with a preprocessor), buildpack references in order, env pairs}) followed by TestContext::start_container(ContainerConfig {entrypoint, command, env, exposed ports}) for configurations whose build env and container env DIFFER: exactly one `pack build` and one `docker run` are recorded and, parsed with the independent option-grammar parser, carry exactly the configured builder / path / buildpacks in order / build env, resp. entrypoint / command / container env / ports / bind mounts (host side = source); the directory given to --path exists at invocation time and holds the app incl. the preprocessor's change; the fixture directory is untouched when a preprocessor is used; non-trivial = all",
        "8 configurations (2 app-dir modes x 2 buildpack lists x 2 container configurations) + an expected pack failure (one invocation) + a rebuild after a preprocessor build",
    );
    let t = tempfile::tempdir().unwrap(); let root = t.path();
    let bin = root.join("bin"); std::fs::create_dir_all(&bin).unwrap();
    let log = root.join("cmd.log");
    for tool in ["pack", "docker"] {
        let p = bin.join(tool);
        // besides its argv the recorder notes what the directory given to `--path` holds AT INVOCATION TIME
        std::fs::write(&p, "#!/bin/sh\n{ printf '%s\\0' \"$(basename \"$0\")\" \"$@\"; printf '\\n--END--\\n'; } >> \"$VERIF_CMDLOG\"\nprev=\nfor a in \"$@\"; do if [ \"$prev\" = --path ]; then if [ -d \"$a\" ]; then printf 'files=%s\\n' \"$(ls -1 \"$a\" | tr '\\n' ' ')\" > \"$VERIF_CMDLOG.path\"; else printf 'missing\\n' > \"$VERIF_CMDLOG.path\"; fi; fi; prev=\"$a\"; done\n[ -n \"$VERIF_PACK_FAIL\" ] && [ \"$(basename \"$0\")\" = pack ] && exit 1\nexit 0\n").unwrap();
        use std::os::unix::fs::PermissionsExt; std::fs::set_permissions(&p, std::fs::Permissions::from_mode(0o755)).unwrap();
    }
    let old_path = std::env::var("PATH").unwrap_or_default();
    // single-threaded harness: the process environment is set for the children and restored afterwards
    unsafe { std::env::set_var("PATH", format!("{}:{old_path}", bin.display())); std::env::set_var("VERIF_CMDLOG", &log); std::env::set_var("CARGO_MANIFEST_DIR", root); }
    let fixture = root.join("fixture app"); std::fs::create_dir_all(&fixture).unwrap(); std::fs::write(fixture.join("Procfile"), "web: true").unwrap();
    for preprocess in [false, true] { for bps in [vec!["heroku/one"], vec!["z/last", "a/first", "z/last"]] { for variant in 0..2 {
        r.evaluations += 1; r.nontrivial += 1;
        let _ = std::fs::remove_file(&log);
        let mut bc = BuildConfig::new("heroku/builder:24", &fixture);
        bc.buildpacks(bps.iter().map(|b| BuildpackReference::Other(b.to_string())).collect::<Vec<_>>());
        bc.env("BUILD_ONLY", "s3cr=t").envs([("BP_LOG_LEVEL", "debug")]).env("BP_PADDED", " v ");   // env() followed by envs(): both kinds of call ADD
        // the preprocessor adds a file AND rewrites an existing one in place: both only ever touch the private copy
        if preprocess { bc.app_dir_preprocessor(|p| { std::fs::write(p.join("extra"), "x").unwrap(); std::fs::write(p.join("Procfile"), "web: rewritten by the preprocessor").unwrap(); }); }
        let mut cc = ContainerConfig::new();
        if variant == 0 { cc.entrypoint("web").env("PORT", "8080").envs([("GREETING", "a=b c")]).env("PADDED", "  two leading, newline at the end\n").expose_port(8080).bind_mount("/host/test cache", "/workspace/cache"); } else { cc.command(["echo", "an earlier command that the next call replaces"]); cc.command(["bash", "-c", "echo hi"]).env("ONLY_IN_CONTAINER", "").expose_port(80).expose_port(443).bind_mount("/host/a", "/data").bind_mount("/host/b", "/etc/b"); }
        let _ = std::fs::remove_file(root.join("cmd.log.path"));
        let input = format!("preprocessor {preprocess}, buildpacks {bps:?}, container variant {variant}");
        let res = std::panic::catch_unwind(std::panic::AssertUnwindSafe(|| { TestRunner::default().build(&bc, |ctx| { ctx.start_container(&cc, |_c| {}); }); }));
        if res.is_err() { r.violation("glue_run", "the test runner panicked although pack and docker succeeded", input.clone(), "no panic".into(), "panic".into()); continue; }
        let cmds = recorded(&log);
        let packs: Vec<&Vec<String>> = cmds.iter().filter(|c| c.first().map(String::as_str) == Some("pack") && c.get(1).map(String::as_str) == Some("build")).collect();
        let runs: Vec<&Vec<String>> = cmds.iter().filter(|c| c.first().map(String::as_str) == Some("docker") && c.get(1).map(String::as_str) == Some("run")).collect();
        if packs.len() != 1 || runs.len() != 1 { r.violation("glue_count", "exactly one pack build and one docker run per configuration", input.clone(), "1 / 1".into(), format!("{} / {} in {cmds:?}", packs.len(), runs.len())); continue; }
        match parse_build(&packs[0][1..]) {
            Ok(b) => {
                let want_env: BTreeMap<String, String> = [("BUILD_ONLY", "s3cr=t"), ("BP_LOG_LEVEL", "debug"), ("BP_PADDED", " v ")].iter().map(|(k, v)| (k.to_string(), v.to_string())).collect();
                let path_ok = if preprocess { b.path.as_deref() != Some(fixture.to_str().unwrap()) && b.path.is_some() } else { b.path.as_deref() == Some(fixture.to_str().unwrap()) };
                if b.builder.as_deref() != Some("heroku/builder:24") || b.buildpacks != bps.iter().map(|x| x.to_string()).collect::<Vec<_>>() || b.env != want_env || b.env_count != 3 || !path_ok {
                    r.violation("glue_pack", "the pack build invocation carries the builder, app path, buildpacks in order and every build env pair exactly once", format!("{input} -> {:?}", packs[0]), format!("builder heroku/builder:24, buildpacks {bps:?}, env {want_env:?}, path {}", if preprocess { "a private copy" } else { "the fixture" }), format!("{b:?}"));
                }
            }
            Err(e) => r.violation("glue_pack", "the recorded pack invocation is not well-formed", format!("{input} -> {:?}", packs[0]), "well-formed".into(), e),
        }
        match parse_run(&runs[0][1..]) {
            Ok(d) => {
                let (want_ep, want_cmd, want_env, mut want_ports): (Option<String>, Vec<String>, BTreeMap<String, String>, Vec<u16>) = if variant == 0 {
                    (Some("web".into()), vec![], [("PORT", "8080"), ("GREETING", "a=b c"), ("PADDED", "  two leading, newline at the end\n")].iter().map(|(k, v)| (k.to_string(), v.to_string())).collect(), vec![8080])
                } else { (None, vec!["bash".into(), "-c".into(), "echo hi".into()], [("ONLY_IN_CONTAINER", "")].iter().map(|(k, v)| (k.to_string(), v.to_string())).collect(), vec![80, 443]) };
                want_ports.sort(); let mut got_ports = d.ports.clone(); got_ports.sort();
                let mut want_mounts: Vec<(String, String)> = if variant == 0 { vec![("/host/test cache".into(), "/workspace/cache".into())] } else { vec![("/host/a".into(), "/data".into()), ("/host/b".into(), "/etc/b".into())] };
                want_mounts.sort(); let mut got_mounts = d.mounts.clone(); got_mounts.sort();
                if got_mounts != want_mounts { r.violation("glue_docker", "every configured bind mount reaches docker run once, host path as source and container path as target", format!("{input} -> {:?}", runs[0]), format!("{want_mounts:?} (source, target)"), format!("{got_mounts:?}")); }
                if d.entrypoint != want_ep || d.command != want_cmd || d.env != want_env || got_ports != want_ports || !d.detach {
                    r.violation("glue_docker", "the docker run invocation yields exactly the configured entrypoint, command, container environment and ports", format!("{input} -> {:?}", runs[0]), format!("entrypoint {want_ep:?} command {want_cmd:?} env {want_env:?} ports {want_ports:?}"), format!("{d:?}"));
                }
            }
            Err(e) => r.violation("glue_docker", "the recorded docker run invocation is not well-formed", format!("{input} -> {:?}", runs[0]), "well-formed".into(), e),
        }
        // what pack saw under --path when it was invoked: the fixture's files, plus the preprocessor's change in the private copy
        let seen = std::fs::read_to_string(root.join("cmd.log.path")).unwrap_or_default();
        let want_seen = if preprocess { "files=Procfile extra \n" } else { "files=Procfile \n" };
        if seen != want_seen { r.violation("glue_pack_path", "the directory passed to pack build exists when pack runs and holds the app (with the preprocessor's changes in the private copy)", input.clone(), want_seen.trim().into(), seen.trim().into()); }
        if std::fs::read_dir(&fixture).unwrap().count() != 1 || std::fs::read_to_string(fixture.join("Procfile")).ok().as_deref() != Some("web: true") { r.violation("glue_fixture", "the fixture stays untouched (no file added, no file's content changed)", input.clone(), "only Procfile, content \"web: true\"".into(), format!("{} entries, Procfile = {:?}", std::fs::read_dir(&fixture).unwrap().count(), std::fs::read_to_string(fixture.join("Procfile")).unwrap_or_default())); let _ = std::fs::write(fixture.join("Procfile"), "web: true"); }
    } } }
    // ---- a build whose pack invocation FAILS as expected: still exactly ONE pack build invocation (no silent retry)
    {
        use libcnb_test::PackResult;
        r.evaluations += 1; r.nontrivial += 1;
        let _ = std::fs::remove_file(&log);
        let mut bc = BuildConfig::new("heroku/builder:24", &fixture);
        bc.buildpacks(vec![BuildpackReference::Other("heroku/one".to_string())]).expected_pack_result(PackResult::Failure);
        unsafe { std::env::set_var("VERIF_PACK_FAIL", "1"); }
        let res = std::panic::catch_unwind(std::panic::AssertUnwindSafe(|| { TestRunner::default().build(&bc, |_ctx| {}); }));
        unsafe { std::env::remove_var("VERIF_PACK_FAIL"); }
        let cmds = recorded(&log);
        let n = cmds.iter().filter(|c| c.first().map(String::as_str) == Some("pack") && c.get(1).map(String::as_str) == Some("build")).count();
        if res.is_err() || n != 1 { r.violation("glue_count", "a build configuration whose pack run fails as expected results in exactly ONE pack build invocation", "expected_pack_result(Failure), pack exits 1".into(), "no panic, 1 pack build".into(), format!("panic {}, {n} pack build invocations: {cmds:?}", res.is_err())); }
    }
    // ---- rebuild with the context's own configuration after a build with a preprocessor: pack sees a private copy of the FIXTURE with the preprocessor applied ONCE
    {
        r.evaluations += 1; r.nontrivial += 1;
        let _ = std::fs::remove_file(&log); let _ = std::fs::remove_file(root.join("cmd.log.path"));
        let mut bc = BuildConfig::new("heroku/builder:24", &fixture);
        bc.buildpacks(vec![BuildpackReference::Other("heroku/one".to_string())]);
        // every application of the preprocessor adds one more file: pre-1, pre-2, ..
        bc.app_dir_preprocessor(|p| { let n = std::fs::read_dir(&p).unwrap().filter(|e| e.as_ref().unwrap().file_name().to_string_lossy().starts_with("pre-")).count(); std::fs::write(p.join(format!("pre-{}", n + 1)), "x").unwrap(); });
        let res = std::panic::catch_unwind(std::panic::AssertUnwindSafe(|| { TestRunner::default().build(&bc, |ctx| { let cfg = ctx.config.clone(); ctx.rebuild(cfg, |_ctx2| {}); }); }));
        let seen = std::fs::read_to_string(root.join("cmd.log.path")).unwrap_or_default();
        let cmds = recorded(&log);
        let n = cmds.iter().filter(|c| c.first().map(String::as_str) == Some("pack") && c.get(1).map(String::as_str) == Some("build")).count();
        if res.is_err() || n != 2 || seen != "files=Procfile pre-1 \n" { r.violation("glue_rebuild_path", "a rebuild with the context's configuration gives pack a private copy of the fixture with the preprocessor applied exactly once", "build with a preprocessor, then ctx.rebuild(ctx.config.clone(), ..)".into(), "2 pack builds, second --path holds: Procfile pre-1".into(), format!("panic {}, {n} pack builds, second --path holds: {}", res.is_err(), seen.trim())); }
        if std::fs::read_dir(&fixture).unwrap().count() != 1 { r.violation("glue_fixture", "the fixture stays untouched", "rebuild with preprocessor".into(), "only Procfile".into(), "changed".into()); }
    }
    unsafe { std::env::set_var("PATH", old_path); }
    r.sample("build env {BUILD_ONLY, BP_LOG_LEVEL} only in pack build; container env {PORT, GREETING} only in docker run".into());
    r
}
