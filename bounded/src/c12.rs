// C12 witness search: real I/O faults planted at the files an operation reads or writes, WITHOUT a preload shim:
//   a path that is a symlink to /dev/full makes every write to it fail with ENOSPC, a symlink to /proc/self/mem makes every read fail with EIO,
//   a regular file where a directory is expected makes mkdir/rmdir-type calls fail (ENOTDIR/EEXIST).
// (/dev/full READS as an endless stream of zeros, so it is only planted at files the operation never reads.)
// Every operation below must then return Err (the runtime must exit with a status that is neither 0 nor 100).
#![allow(deprecated)]
use crate::Report;
use crate::c11::{ctx, B};
use libcnb::build::BuildContext;
use libcnb::data::layer_name;
use libcnb::data::sbom::SbomFormat;
use libcnb::generic::GenericMetadata;
use libcnb::layer::{CachedLayerDefinition, InvalidMetadataAction, RestoredLayerAction, UncachedLayerDefinition};
use libcnb::layer_env::{LayerEnv, ModificationBehavior as MB, Scope};
use libcnb::sbom::Sbom;
use std::fs;
use std::os::unix::fs::symlink;
use std::path::Path;
use std::process::Command;

const FULL: &str = "/dev/full";
const EIO: &str = "/proc/self/mem";
fn env1() -> LayerEnv { let mut e = LayerEnv::new(); e.insert(Scope::All, MB::Override, "A", "1"); e.insert(Scope::Process("web".into()), MB::Default, "W", "2"); e }

pub fn faults(_thorough: bool) -> Report {
    let mut r = Report::new(
        "each public operation run on a prepared real directory in which ONE file it must read or write fails: write target -> /dev/full (ENOSPC), read source -> /proc/self/mem (EIO), a regular file in place of a directory (ENOTDIR/EEXIST): write_toml_file, read_toml_file, uncached_layer / cached_layer (metadata file read and write), LayerRef::write_metadata / write_env / write_sboms / write_exec_d_programs / read_env, LayerEnv::write_to_layer_dir / read_from_layer_dir, read_platform_env, and the real runtime as detect/build (plan, launch.toml, store.toml read and write, SBOM files, buildpack plan, platform env): the call must return Err / the process must exit with a status that is neither 0 nor 100; non-trivial = all of them (a control run without the fault must succeed)",
        "27 fault positions x {control, faulted}",
    );
    let mut case = |name: &str, control_ok: bool, faulted_err: bool, detail: String, r: &mut Report| {
        r.evaluations += 1; r.nontrivial += 1;
        if !control_ok { r.violation("harness", "control run (no fault) did not succeed", name.to_string(), "Ok".into(), detail.clone()); }
        if !faulted_err { r.violation("fault_reported", "a failed file-system operation was not reported: the call succeeded", name.to_string(), "Err / exit status neither 0 nor 100".into(), detail); }
    };
    let t = tempfile::tempdir().unwrap(); let root = t.path();
    let fresh = |n: &str| -> std::path::PathBuf { let p = root.join(n); fs::create_dir_all(&p).unwrap(); p };
    // ---- toml files
    { let d = fresh("toml"); let v: toml::Table = toml::from_str("a = 1").unwrap();
      let c = libcnb::write_toml_file(&v, d.join("ok.toml")).is_ok(); symlink(FULL, d.join("full.toml")).unwrap();
      let f = libcnb::write_toml_file(&v, d.join("full.toml")); case("write_toml_file -> /dev/full", c, f.is_err(), format!("{f:?}"), &mut r);
      let c = libcnb::read_toml_file::<toml::Table>(d.join("ok.toml")).is_ok(); symlink(EIO, d.join("eio.toml")).unwrap();
      let f = libcnb::read_toml_file::<toml::Table>(d.join("eio.toml")); case("read_toml_file <- EIO", c, f.is_err(), format!("{f:?}"), &mut r); }
    // ---- struct API
    let layer_ops = |plant: &dyn Fn(&Path), op: &dyn Fn(&BuildContext<B>) -> Result<(), String>| -> (bool, Result<(), String>) {
        let l = tempfile::tempdir().unwrap(); let c: BuildContext<B> = ctx(l.path()); let control = op(&c).is_ok();
        let l2 = tempfile::tempdir().unwrap(); plant(l2.path()); let c2: BuildContext<B> = ctx(l2.path()); (control, op(&c2))
    };
    let cached = |c: &BuildContext<B>| c.cached_layer(layer_name!("x"), CachedLayerDefinition { build: true, launch: true, invalid_metadata_action: &|_| InvalidMetadataAction::DeleteLayer, restored_layer_action: &|_: &GenericMetadata, _| RestoredLayerAction::KeepLayer }).map_err(|e| e.to_string());
    { let (c, f) = layer_ops(&|l| { fs::create_dir_all(l.join("x")).unwrap(); symlink(EIO, l.join("x.toml")).unwrap(); }, &|c| c.uncached_layer(layer_name!("x"), UncachedLayerDefinition { build: true, launch: true }).map(|_| ()).map_err(|e| e.to_string()));
      case("uncached_layer: existing x.toml <- EIO", c, f.is_err(), format!("{f:?}"), &mut r); }
    { let (c, f) = layer_ops(&|l| { fs::create_dir_all(l.join("x")).unwrap(); symlink(EIO, l.join("x.toml")).unwrap(); }, &|c| cached(c).map(|_| ()));
      case("cached_layer: restored x.toml <- EIO", c, f.is_err(), format!("{f:?}"), &mut r); }
    let with_layer = |plant: &dyn Fn(&Path), op: &dyn Fn(&libcnb::layer::LayerRef<B, (), ()>) -> Result<(), String>| -> (bool, Result<(), String>) {
        let run = |p: Option<&dyn Fn(&Path)>| -> Result<(), String> {
            let l = tempfile::tempdir().unwrap(); let c: BuildContext<B> = ctx(l.path());
            let lr = c.uncached_layer(layer_name!("x"), UncachedLayerDefinition { build: true, launch: true }).map_err(|e| e.to_string())?;
            if let Some(p) = p { p(l.path()); }
            op(&lr)
        };
        (run(None).is_ok(), run(Some(plant)))
    };
    { let (c, f) = with_layer(&|l| { fs::remove_file(l.join("x.toml")).unwrap(); symlink(EIO, l.join("x.toml")).unwrap(); }, &|lr| lr.write_metadata(toml::Table::new()).map_err(|e| e.to_string()));
      case("LayerRef::write_metadata: x.toml <- EIO (read-modify-write)", c, f.is_err(), format!("{f:?}"), &mut r); }
    { let (c, f) = with_layer(&|l| { fs::write(l.join("x/env"), b"not a directory").unwrap(); }, &|lr| lr.write_env(env1()).map_err(|e| e.to_string()));
      case("LayerRef::write_env: <layer>/env is a regular file", c, f.is_err(), format!("{f:?}"), &mut r); }
    { let (c, f) = with_layer(&|l| { fs::write(l.join("x/env.launch"), b"not a directory").unwrap(); }, &|lr| lr.write_env(env1()).map_err(|e| e.to_string()));
      case("LayerRef::write_env: <layer>/env.launch is a regular file", c, f.is_err(), format!("{f:?}"), &mut r); }
    { let (c, f) = with_layer(&|l| { fs::create_dir_all(l.join("x/env")).unwrap(); symlink(EIO, l.join("x/env/VAR")).unwrap(); }, &|lr| lr.read_env().map(|_| ()).map_err(|e| e.to_string()));
      case("LayerRef::read_env: env/VAR <- EIO", c, f.is_err(), format!("{f:?}"), &mut r); }
    { let (c, f) = with_layer(&|l| { fs::create_dir_all(l.join("x/env.launch/web")).unwrap(); symlink(EIO, l.join("x/env.launch/web/VAR.override")).unwrap(); }, &|lr| lr.read_env().map(|_| ()).map_err(|e| e.to_string()));
      case("LayerRef::read_env: env.launch/web/VAR.override <- EIO", c, f.is_err(), format!("{f:?}"), &mut r); }
    for (i, f) in ["cdx", "spdx", "syft"].iter().enumerate() {
        let fmt = [SbomFormat::CycloneDxJson, SbomFormat::SpdxJson, SbomFormat::SyftJson][i].clone();
        let (c, res) = with_layer(&|l| fs::create_dir(l.join(format!("x.sbom.{f}.json"))).unwrap(), &|lr| lr.write_sboms(&[Sbom::from_bytes(fmt.clone(), b"{}".to_vec())]).map_err(|e| e.to_string()));
        case(&format!("LayerRef::write_sboms: x.sbom.{f}.json is a directory (unlink fails)"), c, res.is_err(), format!("{res:?}"), &mut r);
    }
    // a stale SBOM of ANOTHER format that cannot be unlinked (it is a directory) while one format is written
    { let (c, res) = with_layer(&|l| fs::create_dir(l.join("x.sbom.spdx.json")).unwrap(), &|lr| lr.write_sboms(&[Sbom::from_bytes(SbomFormat::CycloneDxJson, b"{}".to_vec())]).map_err(|e| e.to_string()));
      case("LayerRef::write_sboms(cdx): stale x.sbom.spdx.json is a directory (unlink fails)", c, res.is_err(), format!("{res:?}"), &mut r); }
    { let src = fresh("progs"); fs::write(src.join("good"), b"#!/bin/sh\n").unwrap(); symlink(EIO, src.join("bad")).unwrap();
      let (c, f) = with_layer(&|_| {}, &|lr| lr.write_exec_d_programs([("p", src.join("good"))]).map_err(|e| e.to_string()));
      let (_, f2) = with_layer(&|_| {}, &|lr| lr.write_exec_d_programs([("p", src.join("bad"))]).map_err(|e| e.to_string()));
      case("LayerRef::write_exec_d_programs: program source <- EIO", c && f.is_ok(), f2.is_err(), format!("{f2:?}"), &mut r);
      let (c, f3) = with_layer(&|l| fs::write(l.join("x/exec.d"), b"file").unwrap(), &|lr| lr.write_exec_d_programs([("p", src.join("good"))]).map_err(|e| e.to_string()));
      case("LayerRef::write_exec_d_programs: <layer>/exec.d is a regular file", c, f3.is_err(), format!("{f3:?}"), &mut r); }
    // ---- LayerEnv directly, platform env
    { let d = fresh("le"); let c = env1().write_to_layer_dir(&d).is_ok(); let d2 = fresh("le2"); fs::write(d2.join("env.build"), b"x").unwrap(); let f = env1().write_to_layer_dir(&d2);
      case("LayerEnv::write_to_layer_dir: env.build is a regular file", c, f.is_err(), format!("{f:?}"), &mut r);
      let d3 = fresh("le3"); fs::create_dir_all(d3.join("env.build")).unwrap(); symlink(EIO, d3.join("env.build/X.append")).unwrap(); let f = LayerEnv::read_from_layer_dir(&d3);
      case("LayerEnv::read_from_layer_dir: env.build/X.append <- EIO", LayerEnv::read_from_layer_dir(&d).is_ok(), f.is_err(), format!("{:?}", f.map(|_| ())), &mut r); }
    // eight process types, ONE of which cannot be written (its name is longer than a file name may be: mkdir fails whoever runs this):
    // whatever order the map is walked in, the failure must come back (10 fresh maps = 10 iteration orders)
    { let mk = |bad: bool| { let mut e = LayerEnv::new(); for i in 0..7 { e.insert(Scope::Process(format!("proc{i}")), MB::Override, "V", "1"); } e.insert(Scope::Process(if bad { "x".repeat(300) } else { "last".into() }), MB::Override, "V", "1"); e };
      let c = mk(false).write_to_layer_dir(fresh("lemany")).is_ok();
      let mut swallowed = vec![];
      for t in 0..10 { let d = fresh(&format!("lemany{t}")); if mk(true).write_to_layer_dir(&d).is_ok() { swallowed.push(t); } }
      case("LayerEnv::write_to_layer_dir: one of eight process directories cannot be created (10 trials)", c, swallowed.is_empty(), format!("Ok returned in trials {swallowed:?}"), &mut r); }
    { let p = fresh("platform/env"); fs::write(p.join("GOOD"), b"1").unwrap(); let c = <libcnb::generic::GenericPlatform as libcnb::Platform>::from_path(root.join("platform")).is_ok(); symlink(EIO, p.join("BAD")).unwrap(); let f = <libcnb::generic::GenericPlatform as libcnb::Platform>::from_path(root.join("platform"));
      case("read_platform_env: env/BAD <- EIO", c, f.is_err(), format!("{:?}", f.map(|_| ())), &mut r); }
    // ---- the runtime
    let rtbp = std::env::current_exe().unwrap().parent().unwrap().join("rtbp");
    let runtime = |exe: &str, envs: &[(&str, &str)], plant: &dyn Fn(&Path)| -> i32 {
        let t = tempfile::tempdir().unwrap(); let root = t.path().canonicalize().unwrap();
        for d in ["app", "bp", "layers", "platform/env", "bin"] { fs::create_dir_all(root.join(d)).unwrap(); }
        fs::write(root.join("bp/buildpack.toml"), "api = \"0.10\"\n[buildpack]\nid = \"verif/witness\"\nversion = \"1.2.3\"\n").unwrap(); fs::write(root.join("bp-plan.toml"), "[[entries]]\nname = \"x\"\n").unwrap();
        symlink(&rtbp, root.join("bin").join(exe)).unwrap(); plant(&root);
        let args = if exe == "build" { vec![root.join("layers"), root.join("platform"), root.join("bp-plan.toml")] } else { vec![root.join("platform"), root.join("plan-out.toml")] };
        let mut cmd = Command::new(root.join("bin").join(exe)); cmd.args(&args).current_dir(root.join("app")).env_clear().env("CNB_BUILDPACK_DIR", root.join("bp"));
        for (k, v) in [("CNB_TARGET_OS", "linux"), ("CNB_TARGET_ARCH", "arm64"), ("CNB_TARGET_DISTRO_NAME", "u"), ("CNB_TARGET_DISTRO_VERSION", "1")] { cmd.env(k, v); }
        for (k, v) in envs { cmd.env(k, v); }
        cmd.output().unwrap().status.code().unwrap_or(-1)
    };
    let rt_cases: Vec<(&str, &str, Vec<(&str, &str)>, Box<dyn Fn(&Path)>)> = vec![
        ("detect: plan file -> /dev/full", "detect", vec![("VERIF_DO", "pass_plan")], Box::new(|r: &Path| symlink(FULL, r.join("plan-out.toml")).unwrap())),
        ("detect: platform env/VAR <- EIO", "detect", vec![("VERIF_DO", "pass")], Box::new(|r: &Path| symlink(EIO, r.join("platform/env/VAR")).unwrap())),
        ("build: launch.toml -> /dev/full", "build", vec![("VERIF_DO", "pass"), ("VERIF_PARTS", "launch")], Box::new(|r: &Path| symlink(FULL, r.join("layers/launch.toml")).unwrap())),
        ("build: store.toml <- EIO", "build", vec![("VERIF_DO", "pass")], Box::new(|r: &Path| symlink(EIO, r.join("layers/store.toml")).unwrap())),
        ("build: build.sbom.cdx.json -> /dev/full", "build", vec![("VERIF_DO", "pass"), ("VERIF_PARTS", "b0")], Box::new(|r: &Path| symlink(FULL, r.join("layers/build.sbom.cdx.json")).unwrap())),
        ("build: launch.sbom.syft.json -> /dev/full", "build", vec![("VERIF_DO", "pass"), ("VERIF_PARTS", "l2")], Box::new(|r: &Path| symlink(FULL, r.join("layers/launch.sbom.syft.json")).unwrap())),
        ("build: FIRST of three build SBOMs -> /dev/full (the later ones are writable)", "build", vec![("VERIF_DO", "pass"), ("VERIF_PARTS", "b0,b1,b2")], Box::new(|r: &Path| symlink(FULL, r.join("layers/build.sbom.cdx.json")).unwrap())),
        ("build: MIDDLE of three launch SBOMs -> /dev/full", "build", vec![("VERIF_DO", "pass"), ("VERIF_PARTS", "l0,l1,l2")], Box::new(|r: &Path| symlink(FULL, r.join("layers/launch.sbom.spdx.json")).unwrap())),
        ("build: launch.toml -> /dev/full while store and SBOMs are writable", "build", vec![("VERIF_DO", "pass"), ("VERIF_PARTS", "launch,store,b0,l0")], Box::new(|r: &Path| symlink(FULL, r.join("layers/launch.toml")).unwrap())),
        ("build: buildpack plan <- EIO", "build", vec![("VERIF_DO", "pass")], Box::new(|r: &Path| { fs::remove_file(r.join("bp-plan.toml")).unwrap(); symlink(EIO, r.join("bp-plan.toml")).unwrap(); })),
        ("build: buildpack.toml <- EIO", "build", vec![("VERIF_DO", "pass")], Box::new(|r: &Path| { fs::remove_file(r.join("bp/buildpack.toml")).unwrap(); symlink(EIO, r.join("bp/buildpack.toml")).unwrap(); })),
    ];
    for (name, exe, envs, plant) in rt_cases {
        let control = runtime(exe, &envs, &|_| {});
        let code = runtime(exe, &envs, plant.as_ref());
        case(name, control == 0, code != 0 && code != 100, format!("control exit {control}, faulted exit {code}"), &mut r);
    }
    r.sample("write target -> /dev/full gives ENOSPC, read source -> /proc/self/mem gives EIO on the real kernel".into());
    r
}
