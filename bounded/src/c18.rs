// C18 bounded stand-in: Inventory::resolve / partial_resolve (max_by_key / fold are provided iterator methods outside Verus),
// the TOML round trip, and a witness search for the checksum grammar.
use crate::Report;
use libherokubuildpack::inventory::Inventory;
use libherokubuildpack::inventory::artifact::{Arch, Artifact, Os};
use libherokubuildpack::inventory::checksum::Checksum;
use libherokubuildpack::inventory::version::VersionRequirement;
use serde::{Deserialize, Serialize};
use std::cmp::Ordering;

// a total order and a 2x2 product (partial) order
#[derive(Debug, Clone, Copy, PartialEq, Eq, PartialOrd, Ord, Serialize, Deserialize)]
struct Tot(u8);
#[derive(Debug, Clone, Copy, PartialEq, Eq, Serialize, Deserialize)]
struct Prod(u8, u8);
impl PartialOrd for Prod {
    fn partial_cmp(&self, o: &Self) -> Option<Ordering> {
        match (self.0.cmp(&o.0), self.1.cmp(&o.1)) {
            (Ordering::Equal, x) | (x, Ordering::Equal) => Some(x),
            (a, b) if a == b => Some(a),
            _ => None,
        }
    }
}
struct AtMost<T>(T);
impl VersionRequirement<Tot> for AtMost<Tot> { fn satisfies(&self, v: &Tot) -> bool { v.0 <= self.0.0 } }
impl VersionRequirement<Prod> for AtMost<Prod> { fn satisfies(&self, v: &Prod) -> bool { v.0 <= self.0.0 && v.1 <= self.0.1 } }
type Sum = Checksum<()>;
fn art<V>(v: V, os: Os, arch: Arch, i: usize) -> Artifact<V, (), Option<()>> { Artifact { version: v, os, arch, url: format!("u{i}"), checksum: "x:00".parse::<Sum>().unwrap(), metadata: None } }

pub fn inventory(thorough: bool) -> Report {
    let maxn = if thorough { 5 } else { 4 };
    let mut r = Report::new(
        "every inventory with up to N artifacts over versions {0,1,2} (total order) resp. {0,1,2}x{0,1,2} (product order, incomparable pairs; up to 3 artifacts) x {linux, darwin} x {amd64, arm64}, duplicates allowed, every query (os, arch, requirement 'at most v'): resolve/partial_resolve return an artifact that matches os, arch and requirement and that no other matching artifact exceeds, and None only when nothing matches; inventory -> TOML -> inventory gives equal artifacts; checksum strings over a hex/non-hex alphabet around the valid lengths; non-trivial = queries with at least two matching artifacts; the shipped semver instance: every subset of 7 versions (three of them pre-releases) x 9 requirements, result == highest version semver itself says matches",
        &format!("N <= {maxn} artifacts"),
    );
    let oss = [Os::Linux, Os::Darwin]; let archs = [Arch::Amd64, Arch::Arm64];
    // ---- total order
    let choices: Vec<(u8, usize, usize)> = { let mut v = vec![]; for ver in 0..3u8 { for o in 0..2 { for a in 0..2 { v.push((ver, o, a)); } } } v };
    let mut idx: Vec<usize> = vec![];
    for n in 0..=maxn {
        idx.clear(); idx.resize(n, 0);
        loop {
            let mut inv: Inventory<Tot, (), Option<()>> = Inventory::new();
            for (i, &c) in idx.iter().enumerate() { let (v, o, a) = choices[c]; inv.push(art(Tot(v), oss[o], archs[a], i)); }
            for o in 0..2 { for a in 0..2 { for req in 0..3u8 {
                r.evaluations += 1;
                let matching: Vec<&Artifact<Tot, (), Option<()>>> = inv.artifacts.iter().filter(|x| x.os == oss[o] && x.arch == archs[a] && x.version.0 <= req).collect();
                if matching.len() >= 2 { r.nontrivial += 1; }
                let got = inv.resolve(oss[o], archs[a], &AtMost(Tot(req)));
                let ok = match got { None => matching.is_empty(), Some(g) => matching.iter().any(|m| std::ptr::eq(*m, g)) && !matching.iter().any(|m| m.version > g.version) };
                if !ok { r.violation("resolve", "resolve did not return a maximal matching artifact", format!("artifacts(version,os,arch)={:?} query=({o},{a},<={req})", idx.iter().map(|&c| choices[c]).collect::<Vec<_>>()), "maximal match / None iff no match".into(), format!("{:?}", got.map(|g| (g.version, g.url.clone())))); }
            } } }
            if n == maxn.min(3) || n < 3 {
                // TOML round trip (kept to the smaller inventories)
                if let Ok(s) = toml::to_string(&inv) { match s.parse::<Inventory<Tot, (), Option<()>>>() { Ok(back) => { if back.artifacts != inv.artifacts { r.violation("toml_round_trip", "artifacts differ after render + parse", s, "equal".into(), "different".into()); } } Err(e) => { r.violation("toml_round_trip", "rendered inventory does not parse (also the EMPTY inventory must)", format!("{n} artifacts: {s:?}"), "Ok".into(), e.to_string()); } } }
            }
            let mut p = n; let mut done = n == 0;
            while p > 0 { p -= 1; idx[p] += 1; if idx[p] < choices.len() { break; } idx[p] = 0; if p == 0 { done = true; } }
            if done { break; }
        }
    }
    // ---- partial (product) order
    // {0,1,2}x{0,1,2}: rich enough for 'a maximum, then an element incomparable with it, then a smaller element incomparable with that one'
    let pch: Vec<(u8, u8)> = { let mut v = vec![]; for a in 0..3u8 { for b in 0..3u8 { v.push((a, b)); } } v };
    for n in 0..=3usize.max(maxn.min(3)) {
        idx.clear(); idx.resize(n, 0);
        loop {
            let mut inv: Inventory<Prod, (), Option<()>> = Inventory::new();
            for (i, &c) in idx.iter().enumerate() { inv.push(art(Prod(pch[c].0, pch[c].1), Os::Linux, Arch::Amd64, i)); }
            for req in &pch {
                r.evaluations += 1;
                let matching: Vec<&Artifact<Prod, (), Option<()>>> = inv.artifacts.iter().filter(|x| x.version.0 <= req.0 && x.version.1 <= req.1).collect();
                if matching.len() >= 2 { r.nontrivial += 1; }
                let got = inv.partial_resolve(Os::Linux, Arch::Amd64, &AtMost(Prod(req.0, req.1)));
                let ok = match got { None => matching.is_empty(), Some(g) => matching.iter().any(|m| std::ptr::eq(*m, g)) && !matching.iter().any(|m| m.version.partial_cmp(&g.version) == Some(Ordering::Greater)) };
                if !ok { r.violation("partial_resolve", "partial_resolve did not return a maximal matching artifact", format!("versions={:?} requirement<={req:?}", idx.iter().map(|&c| pch[c]).collect::<Vec<_>>()), "maximal match / None iff no match".into(), format!("{:?}", got.map(|g| g.version))); }
                if inv.partial_resolve(Os::Darwin, Arch::Amd64, &AtMost(Prod(req.0, req.1))).is_some() { r.violation("partial_resolve", "artifact with the wrong OS returned", format!("{idx:?}"), "None".into(), "Some".into()); }
            }
            let mut p = n; let mut done = n == 0;
            while p > 0 { p -= 1; idx[p] += 1; if idx[p] < pch.len() { break; } idx[p] = 0; if p == 0 { done = true; } }
            if done { break; }
        }
    }
    // ---- a requirement on version AND metadata (implemented directly, not through the VersionRequirement blanket impl)
    {
        use libherokubuildpack::inventory::version::ArtifactRequirement;
        struct Req { max: u8, meta: u8 }
        impl ArtifactRequirement<Tot, u8> for Req { fn satisfies_metadata(&self, m: &u8) -> bool { *m == self.meta } fn satisfies_version(&self, v: &Tot) -> bool { v.0 <= self.max } }
        impl ArtifactRequirement<Prod, u8> for Req { fn satisfies_metadata(&self, m: &u8) -> bool { *m == self.meta } fn satisfies_version(&self, v: &Prod) -> bool { v.0 <= self.max } }
        let ch: Vec<(u8, u8)> = { let mut v = vec![]; for ver in 0..3u8 { for m in 0..2u8 { v.push((ver, m)); } } v };
        for n in 0..=3usize {
            idx.clear(); idx.resize(n, 0);
            loop {
                let mut inv: Inventory<Tot, (), u8> = Inventory::new(); let mut pinv: Inventory<Prod, (), u8> = Inventory::new();
                for (i, &c) in idx.iter().enumerate() {
                    inv.push(Artifact { version: Tot(ch[c].0), os: Os::Linux, arch: Arch::Arm64, url: format!("u{i}"), checksum: "x:00".parse::<Sum>().unwrap(), metadata: ch[c].1 });
                    pinv.push(Artifact { version: Prod(ch[c].0, 0), os: Os::Linux, arch: Arch::Arm64, url: format!("u{i}"), checksum: "x:00".parse::<Sum>().unwrap(), metadata: ch[c].1 });
                }
                for max in 0..3u8 { for meta in 0..2u8 {
                    r.evaluations += 1;
                    let best: Option<u8> = idx.iter().map(|&c| ch[c]).filter(|(v, m)| *v <= max && *m == meta).map(|(v, _)| v).max();
                    if idx.iter().filter(|&&c| ch[c].0 <= max).count() >= 2 { r.nontrivial += 1; }
                    let q = Req { max, meta };
                    let got = inv.resolve(Os::Linux, Arch::Arm64, &q).map(|a| (a.version.0, a.metadata));
                    let pgot = pinv.partial_resolve(Os::Linux, Arch::Arm64, &q).map(|a| (a.version.0, a.metadata));
                    let want = best.map(|v| (v, meta));
                    let input = format!("artifacts(version,metadata)={:?} requirement: version<={max}, metadata=={meta}", idx.iter().map(|&c| ch[c]).collect::<Vec<_>>());
                    if got != want { r.violation("resolve", "resolve did not return a maximal artifact among those matching version AND metadata requirement (None only when none matches)", input.clone(), format!("{want:?}"), format!("{got:?}")); }
                    if pgot != want { r.violation("partial_resolve", "partial_resolve did not return a maximal artifact among those matching version AND metadata requirement (None only when none matches)", input, format!("{want:?}"), format!("{pgot:?}")); }
                } }
                let mut p = n; let mut done = n == 0;
                while p > 0 { p -= 1; idx[p] += 1; if idx[p] < ch.len() { break; } idx[p] = 0; if p == 0 { done = true; } }
                if done { break; }
            }
        }
    }
    // ---- the shipped digests: sha256 = 32 bytes, sha512 = 64 bytes, names exact
    {
        use sha2::{Sha256, Sha512};
        for (name, hexlen) in [("sha256", 64usize), ("sha512", 128), ("sha384", 96), ("SHA256", 64), ("sha256", 128), ("sha512", 64), ("sha256", 62), ("sha512", 130), ("sha512", 0)] {
            let s = format!("{name}:{}", "ab".repeat(hexlen / 2));
            r.evaluations += 2; r.nontrivial += 2;
            let (w256, w512) = (name == "sha256" && hexlen == 64, name == "sha512" && hexlen == 128);
            let (g256, g512) = (s.parse::<Checksum<Sha256>>().is_ok(), s.parse::<Checksum<Sha512>>().is_ok());
            if g256 != w256 { r.violation("checksum_grammar", "Checksum<Sha256> accepts exactly sha256:<64 hex digits>", format!("{name}:<{hexlen} hex digits>"), format!("{w256}"), format!("{g256}")); }
            if g512 != w512 { r.violation("checksum_grammar", "Checksum<Sha512> accepts exactly sha512:<128 hex digits>", format!("{name}:<{hexlen} hex digits>"), format!("{w512}"), format!("{g512}")); }
        }
    }
    // ---- checksum strings (witness search for the Verus-proved grammar): sha256 needs 64 hex digits
    use libherokubuildpack::inventory::checksum::Digest;
    struct D2; impl Digest for D2 { fn name_compatible(n: &str) -> bool { n == "d2" } fn length_compatible(l: usize) -> bool { l == 2 } }
    let alpha = ['d', '2', ':', 'a', 'F', 'g', '0'];
    fn strings(alpha: &[char], max: usize, cur: &mut String, f: &mut dyn FnMut(&str)) { f(cur); if cur.len() == max { return; } for &c in alpha { cur.push(c); strings(alpha, max, cur, f); cur.pop(); } }
    strings(&alpha, if thorough { 8 } else { 7 }, &mut String::new(), &mut |s| {
        r.evaluations += 1;
        let exp = match s.split_once(':') { None => false, Some((n, h)) => n == "d2" && h.len() == 4 && h.chars().all(|c| c.is_ascii_hexdigit()) };
        if exp { r.nontrivial += 1; }
        let got = s.parse::<Checksum<D2>>().is_ok();
        if got != exp { r.violation("checksum_grammar", "checksum accepted/rejected against <algorithm>:<hex> with the digest's name and length", format!("{s:?}"), format!("{exp}"), format!("{got}")); }
    });
    // a second ':' after a well-formed checksum (the part after the FIRST ':' must be hex as a whole)
    for base in ["d2:a0F0", "d2:0000"] { for extra in [":", ":g", ":a0", ":d2:a0F0", "::", ":a0F0"] {
        let s = format!("{base}{extra}");
        r.evaluations += 1;
        if s.parse::<Checksum<D2>>().is_ok() { r.violation("checksum_grammar", "checksum accepted/rejected against <algorithm>:<hex> with the digest's name and length", format!("{s:?}"), "false".into(), "true".into()); }
    } }
    // ---- the shipped semver instance (feature inventory-semver): pre-release versions and requirements; oracle = semver's own matching, called directly
    {
        let versions = ["1.0.0", "1.2.0", "1.3.0-beta.1", "1.3.0", "2.0.0-rc.1", "2.0.0", "0.9.9"];
        let reqs = ["^1.2", ">=1.0.0", "=1.3.0-beta.1", "<1.3.0", "^2.0.0-rc.0", "*", ">=1.3.0-alpha", "~1.2", "=3.0.0"];
        for mask in 0u32..(1 << versions.len()) {
            let mut inv: Inventory<semver::Version, (), Option<()>> = Inventory::new();
            let present: Vec<semver::Version> = (0..versions.len()).filter(|i| mask >> i & 1 == 1).map(|i| semver::Version::parse(versions[i]).unwrap()).collect();
            for (i, v) in present.iter().enumerate() { inv.push(Artifact { version: v.clone(), os: Os::Linux, arch: Arch::Arm64, url: format!("u{i}"), checksum: "x:00".parse::<Sum>().unwrap(), metadata: None }); }
            for q in reqs {
                let req = semver::VersionReq::parse(q).unwrap();
                r.evaluations += 1; if present.iter().any(|v| !v.pre.is_empty()) { r.nontrivial += 1; }
                let want = present.iter().filter(|v| req.matches(v)).max().cloned();
                let got = inv.resolve(Os::Linux, Arch::Arm64, &req).map(|a| a.version.clone());
                let pgot = inv.partial_resolve(Os::Linux, Arch::Arm64, &req).map(|a| a.version.clone());
                if got != want || pgot != want { r.violation("resolve_semver", "with semver versions and requirements, resolve / partial_resolve return the highest version that MATCHES the requirement (pre-release rules of semver included)", format!("versions {:?} requirement {q}", present.iter().map(|v| v.to_string()).collect::<Vec<_>>()), format!("{:?}", want.map(|v| v.to_string())), format!("resolve {:?} partial_resolve {:?}", got.map(|v| v.to_string()), pgot.map(|v| v.to_string()))); }
            }
        }
    }
    r.samples.push("versions [(0,1),(1,0),(1,1)] requirement <=(1,1) -> (1,1)".into());
    r
}
