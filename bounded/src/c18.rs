use crate::Report;
pub fn inventory(_thorough: bool) -> Report { Report::new("not implemented yet", "-") }
