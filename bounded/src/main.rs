// bounded — native harness linking the real crates of /repo.
//   bounded <check> [--tier quick|thorough] [--seed N]
// Every check enumerates a stated finite space exhaustively and compares the real code with the EXECUTABLE form of the
// contract clause it stands in for. Output: one JSON line
//   {"evaluations":..,"distinct_nontrivial":..,"rule":"..","bound":"..","exhaustive":true,"violations":[{"case":..,"what":..,"input":..,"expected":..,"actual":..}],"samples":[..]}
// Roles: (a) bounded STAND-IN for functions outside Verus' reach (labelled bounded, never counted as proved),
//        (b) WITNESS search: a concrete failing input for an obligation Verus could not discharge (replay).
// `crate::util` as the included libcnb-package sources expect it (the REAL util.rs)
#[path = "/repo/libcnb-package/src/util.rs"]
#[allow(dead_code, unreachable_pub)]
pub mod util;
mod c01;
mod c02;
mod c03;
mod c04;
mod c05;
mod c07;
mod c09;
mod c11;
mod c12;
mod c13;
mod c14;
mod c15;
mod c16;
mod c17;
mod c18;
mod c19;

pub struct Report {
    pub evaluations: u64,
    pub nontrivial: u64,
    pub rule: String,
    pub bound: String,
    pub violations: Vec<(String, String, String, String, String)>, // case, what, input, expected, actual
    pub samples: Vec<String>,
}
impl Report {
    pub fn new(rule: &str, bound: &str) -> Self {
        Report { evaluations: 0, nontrivial: 0, rule: rule.into(), bound: bound.into(), violations: vec![], samples: vec![] }
    }
    pub fn violation(&mut self, case: &str, what: &str, input: String, expected: String, actual: String) {
        // at most 3 samples per case id (so that one failing case - e.g. a listed known finding - cannot crowd out another), 15 in total
        if self.violations.len() < 15 && self.violations.iter().filter(|v| v.0 == case).count() < 3 {
            self.violations.push((case.into(), what.into(), input, expected, actual));
        }
    }
    pub fn sample(&mut self, s: String) {
        if self.samples.len() < 4 {
            self.samples.push(s);
        }
    }
}
pub fn esc(s: &str) -> String {
    let mut o = String::new();
    for c in s.chars() {
        match c {
            '"' => o.push_str("\\\""),
            '\\' => o.push_str("\\\\"),
            '\n' => o.push_str("\\n"),
            '\r' => o.push_str("\\r"),
            '\t' => o.push_str("\\t"),
            c if (c as u32) < 0x20 => o.push_str(&format!("\\u{:04x}", c as u32)),
            c => o.push(c),
        }
    }
    o
}

fn main() {
    let args: Vec<String> = std::env::args().collect();
    if args.len() < 2 {
        eprintln!("usage: bounded <check> [--tier quick|thorough] [--seed N]");
        std::process::exit(3);
    }
    let thorough = args.iter().any(|a| a == "thorough");
    // the harnesses unwrap() every step that succeeds on the unchanged tree: a panic is therefore a failed expectation about the code under test
    // (reported as a violation with the panic message as the failing step), not a crash of the check
    static PANIC_MSG: std::sync::Mutex<String> = std::sync::Mutex::new(String::new());
    std::panic::set_hook(Box::new(|info| { if std::thread::current().name() == Some("main") || PANIC_MSG.lock().map(|m| m.is_empty()).unwrap_or(false) { if let Ok(mut m) = PANIC_MSG.lock() { *m = info.to_string(); } } eprintln!("{info}"); }));
    let name = args[1].clone();
    let r = std::panic::catch_unwind(std::panic::AssertUnwindSafe(|| match name.as_str() {
        "c09_version" => c09::version(thorough),
        "c09_api" => c09::api(thorough),
        "c09_ids" => c09::ids(thorough),
        "c09_macros" => c09::macros(thorough),
        "c04_apply" => c04::apply(thorough),
        "c05_runtime" => c05::runtime(thorough),
        "c07_toml" => c07::toml_text(thorough),
        "c20_twice" => c05::twice(thorough),
        "c19_writers" => c19::writers(thorough),
        "c19_streams" => c19::streams(thorough),
        "c03_env_files" => c03::env_files(thorough),
        "c10_layer_paths" => c03::layer_paths(thorough),
        "c11_delete" => c11::delete(thorough),
        "c11_nonroot" => c11::nonroot(thorough),
        "c12_faults" => c12::faults(thorough),
        "c01_layers" => c01::layers(thorough),
        "c02_layers" => c02::layers(thorough),
        "c13_order" => c13::order(thorough),
        "c13_workspace" => c13::workspace(thorough),
        "c13_command" => c13::command(thorough),
        "c14_normalize" => c14::normalize(thorough),
        "c14_package" => c14::package(thorough),
        "c15_package" => c15::package(thorough),
        "c16_cleanup" => c16::cleanup(thorough),
        "c17_argv" => c17::argv_roundtrip(thorough),
        "c17_glue" => c17::glue(thorough),
        "c18_inventory" => c18::inventory(thorough),
        other => {
            eprintln!("unknown check {other}");
            std::process::exit(3);
        }
    }));
    let r = match r { Ok(r) => r, Err(_) => {
        let mut rep = Report::new("(the harness stopped at a step that succeeds on the unchanged tree)", "-");
        rep.evaluations = 1;
        let msg: String = PANIC_MSG.lock().map(|m| m.chars().take(1500).collect()).unwrap_or_default();
        // resource exhaustion of the machine is not a statement about the code under test: the check is undecided then
        if ["No space left", "Too many open files", "Cannot allocate memory", "Resource temporarily unavailable", "os error 28", "os error 24", "os error 12", "os error 11"].iter().any(|x| msg.contains(x)) { eprintln!("harness: resource exhaustion: {msg}"); std::process::exit(3); }
        rep.violation("harness_step_failed", "a step of the harness that succeeds on the unchanged tree (an unwrap/expect on a result of the code under test, or on a file it wrote) failed", msg.clone(), "the step succeeds".into(), msg);
        rep
    } };
    let viol: Vec<String> = r
        .violations
        .iter()
        .map(|(c, w, i, e, a)| {
            format!(
                "{{\"case\":\"{}\",\"what\":\"{}\",\"input\":\"{}\",\"expected\":\"{}\",\"actual\":\"{}\",\"replay_cmd\":\"/verif/bounded/target/release/bounded {}\"}}",
                esc(c), esc(w), esc(i), esc(e), esc(a), esc(&args[1])
            )
        })
        .collect();
    let samples: Vec<String> = r.samples.iter().map(|s| format!("\"{}\"", esc(s))).collect();
    println!(
        "{{\"evaluations\":{},\"distinct_nontrivial\":{},\"rule\":\"{}\",\"bound\":\"{}\",\"exhaustive\":true,\"violations\":[{}],\"samples\":[{}]}}",
        r.evaluations,
        r.nontrivial,
        esc(&r.rule),
        esc(&r.bound),
        viol.join(","),
        samples.join(",")
    );
}
