// C07 bounded stand-in: values constructed through the PUBLIC builders/types, written by the real write_toml_file (and the
// real write_exec_d_program_output through fd 3 of a child), decoded by an INDEPENDENT TOML 1.0 reader (Python tomllib,
// bounded/c07_check.py) applying the CNB field names and defaults, and compared with what was constructed.
use crate::Report;
use libcnb::data::build_plan::{BuildPlanBuilder, Require};
use libcnb::data::launch::{Label, LaunchBuilder, ProcessBuilder, ProcessType, Slice, WorkingDirectory};
use libcnb::data::layer_content_metadata::{LayerContentMetadata, LayerTypes};
use libcnb::data::store::Store;
use serde_json::{Value, json};
use std::path::{Path, PathBuf};

const PAYLOADS: &[&str] = &["", "plain", "with \"double\" quotes", "back\\slash \\n literal", "new\nline", "tab\there", "ctrl\u{1}\u{7f}\u{1b}", "unicode é 😀 \u{200b}",
    "'single'", "# not a comment", "a = b", "[table]", " leading and trailing ", "\"\"\"", "'''", "multi\r\nline\r\n", "nul\u{0}byte", "\\u0041", "emoji\u{1F600}\"\\"];

fn meta_table(i: usize) -> toml::Table {
    let mut t = toml::Table::new();
    let s = PAYLOADS[i % PAYLOADS.len()];
    t.insert("s".into(), toml::Value::String(s.into()));
    t.insert(s.to_string() + "key", toml::Value::Integer(i as i64 - 3));
    t.insert("f".into(), toml::Value::Float(1.5 + i as f64));
    t.insert("b".into(), toml::Value::Boolean(i % 2 == 0));
    t.insert("dt".into(), toml::Value::Datetime("1979-05-27T07:32:00Z".parse().unwrap()));
    t.insert("arr".into(), toml::Value::Array(vec![toml::Value::Integer(1), toml::Value::String(s.into()), toml::Value::Array(vec![])]));
    let mut inner = toml::Table::new();
    inner.insert("deep".into(), toml::Value::String(PAYLOADS[(i + 5) % PAYLOADS.len()].into()));
    inner.insert("empty".into(), toml::Value::Table(toml::Table::new()));
    t.insert("nested".into(), toml::Value::Table(inner.clone()));
    t.insert("aot".into(), toml::Value::Array(vec![toml::Value::Table(inner.clone()), toml::Value::Table(toml::Table::new())]));
    t
}
fn toml_to_json(v: &toml::Value) -> Value {
    match v {
        toml::Value::String(s) => json!(s), toml::Value::Integer(i) => json!(i), toml::Value::Boolean(b) => json!(b),
        toml::Value::Float(f) => json!({"$float": format!("{f:?}")}),
        toml::Value::Datetime(d) => json!({"$datetime": d.to_string()}),
        toml::Value::Array(a) => Value::Array(a.iter().map(toml_to_json).collect()),
        toml::Value::Table(t) => table_to_json(t),
    }
}
fn table_to_json(t: &toml::Table) -> Value { Value::Object(t.iter().map(|(k, v)| (k.clone(), toml_to_json(v))).collect()) }

struct Out { dir: PathBuf, n: usize }
impl Out {
    fn put<T: serde::Serialize>(&mut self, kind: &str, value: &T, expected: Value, r: &mut Report) {
        self.n += 1; r.evaluations += 1; r.nontrivial += 1;
        let p = self.dir.join(format!("{:05}.toml", self.n));
        // every third document OVERWRITES an existing, much longer TOML file (what store.toml / <layer>.toml / launch.toml of an earlier build are)
        if self.n % 3 == 0 { let mut old = String::from("[metadata]\nold_key = \"old\"\n"); for i in 0..200 { old.push_str(&format!("old_{i} = \"{}\"\n", "x".repeat(40))); } std::fs::write(&p, old).unwrap(); }
        if let Err(e) = libcnb::write_toml_file(value, &p) {
            r.violation("serialise", "a value built through the public builders cannot be written", format!("{kind} #{}: {expected}", self.n), "Ok".into(), format!("{e:?}"));
            return;
        }
        std::fs::write(self.dir.join(format!("{:05}.json", self.n)), serde_json::to_vec(&json!({"kind": kind, "value": expected})).unwrap()).unwrap();
    }
}

pub fn toml_text(thorough: bool) -> Report {
    let mut r = Report::new(
        "values built through LaunchBuilder/ProcessBuilder/Label/Slice (incl. every sequence of up to 3 singular/plural builder calls, half of them with an intermediate build() after each call; every third document overwrites a longer existing file), BuildPlanBuilder (every provides/requires/or sequence up to the bound, incl. empty groups, requires with nested metadata), LayerContentMetadata (all type flag combinations, absent types, nested metadata with every TOML value kind), Store and ExecDProgramOutput, with string payloads {empty, quotes, backslashes, newlines, CRLF, tabs, control characters, NUL, Unicode, TOML-looking text}: written by the real write_toml_file / write_exec_d_program_output (fd 3), decoded by Python tomllib with the CNB field names and defaults, compared with the constructed value; types libcnb can read back are also read with read_toml_file and compared",
        if thorough { "builder sequences over {provides, requires, or} up to length 6; 19 payload strings in every string position" } else { "builder sequences up to length 4; 19 payload strings in every string position" },
    );
    let t = tempfile::tempdir().unwrap();
    let mut o = Out { dir: t.path().to_path_buf(), n: 0 };
    // ---- launch.toml
    for (i, s) in PAYLOADS.iter().enumerate() {
        let s2 = PAYLOADS[(i + 7) % PAYLOADS.len()];
        for (default, wd) in [(false, None), (true, Some(format!("sub dir/{}", if s.contains('\u{0}') { "x" } else { s })))] {
            let ty: ProcessType = ["web", "worker", "a.b_c-1"][i % 3].parse().unwrap();
            let mut pb = ProcessBuilder::new(ty.clone(), [*s, s2]);
            pb.arg(*s).args([s2, *s]).default(default);
            if let Some(w) = &wd { pb.working_directory(WorkingDirectory::Directory(PathBuf::from(w))); }
            let p1 = pb.build();
            let p2 = ProcessBuilder::new("other".parse().unwrap(), ["only-command"]).build();
            let mut lb = LaunchBuilder::new();
            lb.process(p1.clone()).label(Label { key: (*s).into(), value: s2.into() }).slice(Slice { path_globs: vec![(*s).into(), s2.into()] }).processes([p2.clone()]).label(Label { key: "k2".into(), value: (*s).into() });
            let launch = lb.build();
            let exp = json!({"processes": [
                {"type": ty.to_string(), "command": [s, s2], "args": [s, s2, s], "default": default, "working-dir": wd.clone().unwrap_or(".".into())},
                {"type": "other", "command": ["only-command"], "args": [], "default": false, "working-dir": "."}],
                "labels": [{"key": s, "value": s2}, {"key": "k2", "value": s}], "slices": [{"paths": [s, s2]}]});
            o.put("launch", &launch, exp, &mut r);
            // read back with libcnb
            let p = o.dir.join(format!("{:05}.toml", o.n));
            match libcnb::read_toml_file::<libcnb::data::launch::Launch>(&p) {
                Ok(l) => if l.processes != launch.processes { r.violation("read_back", "launch.toml read back by libcnb differs from what was written", format!("{launch:?}"), format!("{:?}", launch.processes), format!("{:?}", l.processes)); },
                Err(e) => r.violation("read_back", "launch.toml written by libcnb cannot be read back", format!("{launch:?}"), "Ok".into(), format!("{e:?}")),
            }
        }
    }
    o.put("launch", &LaunchBuilder::new().build(), json!({"processes": [], "labels": [], "slices": []}), &mut r);
    // a working directory that is not valid UTF-8 cannot be written as a TOML string: the only acceptable outcome is an error
    {
        use std::os::unix::ffi::OsStringExt;
        r.evaluations += 1; r.nontrivial += 1;
        let mut pb = ProcessBuilder::new("web".parse().unwrap(), ["run"]);
        pb.working_directory(WorkingDirectory::Directory(PathBuf::from(std::ffi::OsString::from_vec(b"/workspace/caf\xE9".to_vec()))));
        let mut lb = LaunchBuilder::new(); lb.process(pb.build());
        let p = o.dir.join("non-utf8-working-dir.toml");
        if libcnb::write_toml_file(&lb.build(), &p).is_ok() {
            r.violation("decode", "a working directory that is not valid UTF-8 is reported as an error instead of being written as some other directory", "working directory bytes /workspace/caf\\xE9".into(), "Err, nothing written".into(), format!("Ok: {:?}", std::fs::read_to_string(&p).unwrap_or_default()));
        }
        let _ = std::fs::remove_file(&p);
    }
    // every sequence of up to 3 calls over {label, labels[2], slice, slices[2], process, processes[2]}: each call APPENDS
    {
        let mk_label = |i: usize| Label { key: format!("k{i}"), value: if i % 2 == 0 { String::new() } else { format!("v{i}") } };
        let mk_slice = |i: usize| Slice { path_globs: vec![format!("dir{i}/**")] };
        let mk_proc = |i: usize| ProcessBuilder::new(format!("p{i}").parse().unwrap(), [format!("cmd{i}")]).build();
        let mut seqs: Vec<Vec<u8>> = vec![vec![]]; let mut frontier = seqs.clone();
        for _ in 0..3 { let mut next = vec![]; for q in &frontier { for c in 0..6u8 { let mut q2 = q.clone(); q2.push(c); next.push(q2); } } seqs.extend(next.iter().cloned()); frontier = next; }
        for (qi, seq) in seqs.iter().enumerate().skip(1) {
            let mut lb = LaunchBuilder::new(); let (mut labels, mut slices, mut procs): (Vec<Value>, Vec<Value>, Vec<Value>) = (vec![], vec![], vec![]); let mut n = 0usize;
            let lj = |i: usize| json!({"key": format!("k{i}"), "value": if i % 2 == 0 { String::new() } else { format!("v{i}") }});
            let sj = |i: usize| json!({"paths": [format!("dir{i}/**")]});
            let pj = |i: usize| json!({"type": format!("p{i}"), "command": [format!("cmd{i}")], "args": [], "default": false, "working-dir": "."});
            for c in seq { match c {
                0 => { lb.label(mk_label(n)); labels.push(lj(n)); n += 1; }
                1 => { lb.labels([mk_label(n), mk_label(n + 1)]); labels.push(lj(n)); labels.push(lj(n + 1)); n += 2; }
                2 => { lb.slice(mk_slice(n)); slices.push(sj(n)); n += 1; }
                3 => { lb.slices([mk_slice(n), mk_slice(n + 1)]); slices.push(sj(n)); slices.push(sj(n + 1)); n += 2; }
                4 => { lb.process(mk_proc(n)); procs.push(pj(n)); n += 1; }
                _ => { lb.processes([mk_proc(n), mk_proc(n + 1)]); procs.push(pj(n)); procs.push(pj(n + 1)); n += 2; }
            }
            // every other sequence also takes an intermediate result after each call: build() does not consume or reset what was configured
            if qi % 2 == 1 { let _ = lb.build(); } }
            o.put("launch", &lb.build(), json!({"processes": procs, "labels": labels, "slices": slices}), &mut r);
        }
    }
    // ---- build plan: every call sequence over {P, R, O}
    let maxlen = if thorough { 6 } else { 4 };
    let mut seqs: Vec<Vec<u8>> = vec![vec![]];
    let mut frontier = seqs.clone();
    for _ in 0..maxlen { let mut next = vec![]; for s in &frontier { for c in 0..3u8 { let mut s2 = s.clone(); s2.push(c); next.push(s2); } } seqs.extend(next.iter().cloned()); frontier = next; }
    for (si, seq) in seqs.iter().enumerate() {
        let mut b = BuildPlanBuilder::new();
        let mut groups: Vec<(Vec<Value>, Vec<Value>)> = vec![(vec![], vec![])];
        for (k, c) in seq.iter().enumerate() {
            let name = PAYLOADS[(si + k) % PAYLOADS.len()];
            match c {
                0 => { b = b.provides(name); groups.last_mut().unwrap().0.push(json!(name)); }
                1 => {
                    let mut req = Require::new(name);
                    let with_meta = (si + k) % 2 == 0;
                    if with_meta { req.metadata(meta_table(si + k)).unwrap(); }
                    b = b.requires(req);
                    groups.last_mut().unwrap().1.push(json!({"name": name, "metadata": if with_meta { table_to_json(&meta_table(si + k)) } else { json!({}) }}));
                }
                _ => { b = b.or(); groups.push((vec![], vec![])); }
            }
        }
        let exp = Value::Array(groups.iter().map(|(p, q)| json!({"provides": p, "requires": q})).collect());
        o.put("plan", &b.build(), exp, &mut r);
    }
    // ---- layer content metadata
    for bits in 0..9u8 { for mi in 0..4usize {
        let types = if bits == 8 { None } else { Some(LayerTypes { launch: bits & 1 != 0, build: bits & 2 != 0, cache: bits & 4 != 0 }) };
        let metadata: Option<toml::Table> = if mi == 0 { None } else { Some(meta_table(mi * 3 + bits as usize)) };
        let v = LayerContentMetadata { types, metadata: metadata.clone() };
        let exp = json!({"types": types.map(|t| json!({"launch": t.launch, "build": t.build, "cache": t.cache})), "metadata": metadata.as_ref().map(table_to_json)});
        o.put("lcm", &v, exp, &mut r);
        let p = o.dir.join(format!("{:05}.toml", o.n));
        match libcnb::read_toml_file::<LayerContentMetadata>(&p) {
            Ok(l) => if l.types != v.types || l.metadata != v.metadata { r.violation("read_back", "layer content metadata read back differs", format!("{v:?}"), format!("{v:?}"), format!("{l:?}")); },
            Err(e) => r.violation("read_back", "layer content metadata cannot be read back", format!("{v:?}"), "Ok".into(), format!("{e:?}")),
        }
    } }
    // ---- store
    for i in 0..PAYLOADS.len() {
        // i == 0: the EMPTY store (no metadata yet) - it must be writable and readable like any other
        let s = if i == 0 { Store::default() } else { Store { metadata: meta_table(i) } };
        o.put("store", &s, json!({"metadata": table_to_json(&s.metadata)}), &mut r);
        // "types that can also be read back by libcnb return a value equal to the one written"
        let p = o.dir.join(format!("{:05}.toml", o.n));
        match libcnb::read_toml_file::<Store>(&p) {
            Ok(back) => if back.metadata != s.metadata { r.violation("read_back", "store read back differs", format!("{s:?}"), format!("{s:?}"), format!("{back:?}")); },
            Err(e) => r.violation("read_back", "a store written by libcnb cannot be read back by libcnb", format!("{s:?} written as {:?}", std::fs::read_to_string(&p).unwrap_or_default()), "Ok".into(), format!("{e:?}")),
        }
    }
    // ---- exec.d output through fd 3 of a child process
    let rtbp = std::env::current_exe().unwrap().parent().unwrap().join("rtbp");
    for (i, s) in PAYLOADS.iter().enumerate() {
        let s = &s.replace('\u{0}', "<nul>"); let s = s.as_str(); // an environment variable cannot carry NUL to the child
        o.n += 1; r.evaluations += 1; r.nontrivial += 1;
        let out = o.dir.join(format!("{:05}.toml", o.n));
        let st = std::process::Command::new("sh").arg("-c").arg("exec \"$RTBP\" 3>\"$OUT\"").env("RTBP", &rtbp).env("OUT", &out)
            .env("VERIF_EXECD_VIA", if i % 2 == 1 { "from" } else { "new" }).env("VERIF_EXECD", format!("KEY_{i}")).env("VERIF_EXECD_VALUE", s).env("VERIF_EXECD_VALUE2", PAYLOADS[(i + 3) % PAYLOADS.len()].replace('\u{0}', "<nul>")).status().unwrap();
        if !st.success() { r.violation("serialise", "write_exec_d_program_output failed", format!("{s:?}"), "exit 0".into(), format!("{st:?}")); continue; }
        let exp = json!({"kind": "execd", "value": {format!("KEY_{i}"): s, "OTHER": PAYLOADS[(i + 3) % PAYLOADS.len()].replace('\u{0}', "<nul>")}});
        std::fs::write(o.dir.join(format!("{:05}.json", o.n)), serde_json::to_vec(&exp).unwrap()).unwrap();
    }
    // ---- the independent reader
    let script = Path::new(env!("CARGO_MANIFEST_DIR")).join("c07_check.py");
    let out = std::process::Command::new("python3").arg(&script).arg(&o.dir).output().unwrap();
    match serde_json::from_slice::<Value>(out.stdout.split(|b| *b == b'\n').filter(|l| !l.is_empty()).last().unwrap_or(b"")) {
        Ok(v) => {
            if v["checked"].as_u64().unwrap_or(0) as usize + 0 < o.n.saturating_sub(r.violations.len()) { r.violation("harness", "independent reader checked fewer files than were written", String::new(), o.n.to_string(), v["checked"].to_string()); }
            for m in v["mismatches"].as_array().cloned().unwrap_or_default() {
                r.violation("decode", "the written text does not decode (independent TOML 1.0 reader, CNB field names and defaults) to the constructed value",
                    format!("{} {}: text {:?}", m["kind"], m["file"], m["text"].as_str().unwrap_or("")), m["expected"].to_string(), m["actual"].to_string());
            }
            r.sample(format!("{} files decoded by tomllib and compared", v["checked"]));
        }
        Err(e) => r.violation("harness", "independent reader produced no result", String::new(), "json".into(), format!("{e}: {} {}", String::from_utf8_lossy(&out.stdout), String::from_utf8_lossy(&out.stderr))),
    }
    r
}
