// C05/C06 witness harness: the REAL libcnb_runtime (bin/rtbp.rs) run as a child process under enumerated configurations;
// exit status, call-back log, the context the call-back was handed and a byte-exact snapshot of the directories are compared
// with the executable form of the decision table (units/runtime.vrs: exit_table, detect_inputs, build_inputs).
use crate::Report;
use std::collections::BTreeMap;
use std::fs;
use std::os::unix::fs::symlink;
use std::path::{Path, PathBuf};
use std::process::Command;

#[derive(Clone, Debug)]
struct Cfg {
    exe: &'static str,            // detect | build | other
    argc_delta: i32,              // 0 = correct count
    toml: &'static str,           // ok | unsupported | malformed | missing | nodirvar
    missing_var: &'static str,    // "" or a CNB_TARGET_* name
    behaviour: &'static str,      // detect: pass|pass_plan|fail|error ; build: pass|error
    parts: Vec<&'static str>,
    preexisting: bool,
    platform: u8,                 // 0 = no env dir, 1 = rich env dir, 2 = a value that is not valid UTF-8
    store: &'static str,          // absent | valid | malformed | dangling | binary (not UTF-8) | directory | loop (symlink to itself)
    plan_file: &'static str,      // ok | missing | binary
    same_len: bool,               // pre-existing outputs with the same LENGTH as the new ones, other bytes
    blocked: &'static str,        // "" or the name of an output file under <layers> whose place is taken by a NON-EMPTY DIRECTORY (writing it fails)
}
impl Cfg {
    fn base(exe: &'static str) -> Cfg {
        Cfg { exe, argc_delta: 0, toml: "ok", missing_var: "", behaviour: "pass", parts: vec![], preexisting: false, platform: 1, store: "absent", plan_file: "ok", same_len: false, blocked: "" }
    }
}
fn hex(b: &[u8]) -> String { b.iter().map(|x| format!("{x:02x}")).collect() }
fn snapshot(root: &Path) -> BTreeMap<PathBuf, String> {
    let mut m = BTreeMap::new();
    fn go(root: &Path, p: &Path, m: &mut BTreeMap<PathBuf, String>) {
        let mut es: Vec<_> = fs::read_dir(p).unwrap().map(|e| e.unwrap().path()).collect();
        es.sort();
        for path in es {
            let md = fs::symlink_metadata(&path).unwrap();
            let rel = path.strip_prefix(root).unwrap().to_path_buf();
            if md.file_type().is_symlink() { m.insert(rel, format!("link:{:?}", fs::read_link(&path).unwrap())); }
            else if md.is_dir() { m.insert(rel, "dir".into()); go(root, &path, m); }
            else { m.insert(rel, format!("file:{}", hex(&fs::read(&path).unwrap()))); }
        }
    }
    go(root, root, &mut m);
    m
}
const PLAN_TEXT: &str = "[[entries]]\nname = \"witness\"\n[entries.metadata]\nversion = \"1.2\"\nnested = { a = [1, 2, { b = \"c\" }], d = 1979-05-27T07:32:00Z }\n\n[[entries]]\nname = \"second\"\n";
const STORE_TEXT: &str = "[metadata]\nold = \"kept\"\n[metadata.deep]\nlist = [1, 2.5, true]\n";
const DESCRIPTOR_OK: &str = "api = \"0.10\"\n[buildpack]\nid = \"verif/witness\"\nversion = \"1.2.3\"\n[metadata]\ncustom = { k = \"v\", n = [1, 2] }\n";

// what an earlier build left behind: LONGER than anything this build writes, so a write that does not truncate shows
fn old_content(kind: &str) -> Vec<u8> { let mut v = Vec::new(); for i in 0..400 { v.extend_from_slice(format!("old_{kind}_{i} = \"{}\"\n", "x".repeat(30)).as_bytes()); } v }
fn run_one(exe_rtbp: &Path, c: &Cfg, r: &mut Report) {
    r.evaluations += 1;
    if c.toml != "ok" || !["detect", "build"].contains(&c.exe) || c.argc_delta != 0 || !c.missing_var.is_empty() || c.behaviour != "pass" || !c.parts.is_empty() || c.preexisting || c.store != "absent" || c.plan_file != "ok" {
        r.nontrivial += 1;
    }
    let t = tempfile::tempdir().unwrap();
    let root = t.path().canonicalize().unwrap();
    let side = tempfile::tempdir().unwrap(); // log + dump live outside the snapshotted tree
    let (app, bp, layers, platform, bin) = (root.join("app"), root.join("bp"), root.join("layers"), root.join("platform"), root.join("bin"));
    for d in [&app, &bp, &layers, &platform, &bin] { fs::create_dir_all(d).unwrap(); }
    fs::write(app.join("source.txt"), b"app").unwrap();
    match c.toml {
        "ok" | "nodirvar" => fs::write(bp.join("buildpack.toml"), DESCRIPTOR_OK).unwrap(),
        "unsupported" => fs::write(bp.join("buildpack.toml"), DESCRIPTOR_OK.replace("0.10", "0.9")).unwrap(),
        "malformed" => fs::write(bp.join("buildpack.toml"), "api = [broken").unwrap(),
        // the supported version written in a way that is not a valid API version: "+0.10", "0.+10", "0.10.0", " 0.10", "00.10" is not THE supported one either
        "plus" => fs::write(bp.join("buildpack.toml"), DESCRIPTOR_OK.replace("0.10", "+0.10")).unwrap(),
        "plusminor" => fs::write(bp.join("buildpack.toml"), DESCRIPTOR_OK.replace("0.10", "0.+10")).unwrap(),
        "threepart" => fs::write(bp.join("buildpack.toml"), DESCRIPTOR_OK.replace("0.10", "0.10.0")).unwrap(),
        "padded" => fs::write(bp.join("buildpack.toml"), DESCRIPTOR_OK.replace("\"0.10\"", "\" 0.10\"")).unwrap(),
        _ => {}
    }
    let mut expected_env: Vec<(String, String)> = vec![];
    if c.platform == 1 {
        let e = platform.join("env");
        fs::create_dir_all(e.join("subdir")).unwrap();
        fs::write(e.join("subdir/INNER"), b"ignored").unwrap();
        for (k, v) in [("A", "1"), ("EMPTY", ""), ("MULTI", "a\nb\n"), ("SP ACE", " padded "), ("UNICODE_é", "vä\u{1F600}"), ("DOTTED.NAME", "d"), ("COLLIDE.a", "a"), ("COLLIDE.b", "b"), ("TRAILING.", "t"), (".hidden", "h"), ("DATABASE_URL=primary", "eq-in-name"), ("=LEADING", "eq-first")] {
            fs::write(e.join(k), v).unwrap();
            expected_env.push((hex(k.as_bytes()), hex(v.as_bytes())));
        }
        // a variable whose NAME is not valid UTF-8 (the value must be UTF-8: read_to_string)
        { use std::os::unix::ffi::OsStrExt; let k = std::ffi::OsStr::from_bytes(b"CAF\xC9"); fs::write(e.join(k), "au lait").unwrap(); expected_env.push((hex(b"CAF\xC9"), hex(b"au lait"))); }
        fs::write(root.join("outside_value"), b"via-link").unwrap();
        symlink(root.join("outside_value"), e.join("LINKED")).unwrap();
        expected_env.push((hex(b"LINKED"), hex(b"via-link")));
        symlink(&app, e.join("LINKDIR")).unwrap(); // symlink to a directory: tolerated, not a variable
        symlink(root.join("nowhere-at-all"), e.join("AAA_DANGLING")).unwrap(); symlink(root.join("nowhere-at-all"), e.join("M_DANGLING")).unwrap(); // dangling links: not variables, and no reason to lose the others
        expected_env.sort();
    }
    if c.platform == 2 {
        // a variable whose VALUE is not valid UTF-8 cannot be represented: a reported error, never silently altered
        let e = platform.join("env"); fs::create_dir_all(&e).unwrap();
        fs::write(e.join("GOOD"), b"1").unwrap(); fs::write(e.join("LATIN1"), b"caf\xe9").unwrap();
    }
    let plan_out = root.join("plan-out.toml");     // detect's <buildplan>
    let bp_plan = root.join("bp-plan.toml");       // build's <plan>
    match c.plan_file { "ok" => fs::write(&bp_plan, PLAN_TEXT).unwrap(), "binary" => fs::write(&bp_plan, [0xff, 0xfe, 0x00]).unwrap(), _ => {} }
    match c.store {
        "valid" => fs::write(layers.join("store.toml"), STORE_TEXT).unwrap(),
        // the store file as libcnb ITSELF wrote it at the end of an earlier build that returned a store without any metadata yet
        "written_empty" => libcnb::write_toml_file(&libcnb::data::store::Store::default(), layers.join("store.toml")).unwrap(),
        "malformed" => fs::write(layers.join("store.toml"), "metadata = 3").unwrap(),
        "dangling" => symlink(root.join("nowhere"), layers.join("store.toml")).unwrap(),
        "binary" => fs::write(layers.join("store.toml"), b"[metadata]\nowner = \"Ren\xE9\"\n").unwrap(),
        "directory" => fs::create_dir(layers.join("store.toml")).unwrap(),
        "loop" => symlink(layers.join("store.toml"), layers.join("store.toml")).unwrap(),
        _ => {}
    }
    if c.preexisting {
        fs::write(&plan_out, old_content("plan")).unwrap();
        fs::write(layers.join("launch.toml"), old_content("launch")).unwrap();
        for base in ["build", "launch"] { for s in ["cdx.json", "spdx.json", "syft.json"] { fs::write(layers.join(format!("{base}.sbom.{s}")), old_content("sbom")).unwrap(); } }
        fs::create_dir_all(layers.join("somelayer")).unwrap();
        fs::write(layers.join("somelayer.toml"), b"[types]\nlaunch = true\n").unwrap();
    }
    if c.same_len {
        // what an earlier build left has exactly the LENGTH of what this build writes, but other bytes
        for (i, sfx) in ["cdx.json", "spdx.json", "syft.json"].iter().enumerate() { fs::write(layers.join(format!("build.sbom.{sfx}")), format!("BUILD_{i}")).unwrap(); fs::write(layers.join(format!("launch.sbom.{sfx}")), format!("LAUNCH_{i}")).unwrap(); }
        let plan = libcnb::data::build_plan::BuildPlanBuilder::new().provides("witness").requires("witness").build();
        fs::write(&plan_out, toml::to_string(&plan).unwrap().replace("witness", "WITNESS")).unwrap();
    }
    if !c.blocked.is_empty() { fs::create_dir_all(layers.join(c.blocked).join("occupied")).unwrap(); }
    let exe_link = bin.join(c.exe);
    symlink(exe_rtbp, &exe_link).unwrap();
    let mut args: Vec<PathBuf> = if c.exe == "build" { vec![layers.clone(), platform.clone(), bp_plan.clone()] } else { vec![platform.clone(), plan_out.clone()] };
    if c.argc_delta < 0 { args.pop(); }
    if c.argc_delta > 0 { args.push(root.join("extra")); }
    let (logf, dumpf) = (side.path().join("log"), side.path().join("dump"));
    let mut cmd = Command::new(&exe_link);
    cmd.args(&args).current_dir(&app).env_clear().env("VERIF_LOG", &logf).env("VERIF_DUMP", &dumpf).env("VERIF_DO", c.behaviour).env("VERIF_PARTS", c.parts.join(","));
    if c.toml != "nodirvar" { cmd.env("CNB_BUILDPACK_DIR", &bp); }
    let vars = [("CNB_TARGET_OS", "linux"), ("CNB_TARGET_ARCH", "arm64"), ("CNB_TARGET_ARCH_VARIANT", "v8"), ("CNB_TARGET_DISTRO_NAME", "ubuntu"), ("CNB_TARGET_DISTRO_VERSION", "24.04")];
    // "<var>=" as missing_var: the variable is SET, to the empty string (set-but-empty must stay distinguishable from unset)
    for (k, v) in vars { if let Some(ev) = c.missing_var.strip_suffix('=') { cmd.env(k, if k == ev { "" } else { v }); } else if c.missing_var != k { cmd.env(k, v); } }
    let before = snapshot(&root);
    let out = cmd.output().unwrap();
    let code = out.status.code().unwrap_or(-1);
    let after = snapshot(&root);
    let log: Vec<String> = fs::read_to_string(&logf).unwrap_or_default().lines().map(String::from).collect();
    let dump = fs::read_to_string(&dumpf).unwrap_or_default();
    let input = format!("{c:?}");
    let bad = |code: i32| code != 0 && code != 100;
    let mut fail = |case: &str, what: &str, expected: String, actual: String| r.violation(case, what, input.clone(), expected, actual);

    // ---- the decision table (executable form of exit_table)
    let gate_closed = c.toml != "ok" || !["detect", "build"].contains(&c.exe) || c.argc_delta != 0;
    let mandatory_missing = !c.missing_var.is_empty() && !c.missing_var.ends_with('=') && c.missing_var != "CNB_TARGET_ARCH_VARIANT";
    let inputs_bad = mandatory_missing || c.platform == 2 || (c.exe == "build" && (c.plan_file != "ok" || ["malformed", "binary", "directory", "loop"].contains(&c.store)));
    let callback = if c.exe == "build" { "build" } else { "detect" };
    let mut expected_after = before.clone();
    if gate_closed {
        if !bad(code) || !log.is_empty() { fail("gate", "unsupported API / wrong executable name / wrong argument count must exit with a code that is neither 0 nor 100 before any buildpack code runs", "code not in {0,100}, log []".into(), format!("code {code}, log {log:?}")); }
    } else if inputs_bad {
        if !bad(code) || log != ["on_error"] { fail("missing_input", "a missing mandatory input never reaches detect/build; the error handler runs once", "code not in {0,100}, log [on_error]".into(), format!("code {code}, log {log:?}")); }
        if log.iter().any(|l| l == callback) { fail("context", "an input that is missing or cannot be represented is a reported error, never silently dropped: the call-back must not be reached", "call-back not reached".into(), format!("log {log:?}, context handed over: {}", dump.lines().filter(|l| l.starts_with("store=") || l.starts_with("target=")).collect::<Vec<_>>().join(" "))); }
    } else if !c.blocked.is_empty() {
        // one of the provided outputs cannot be written (its place is taken by a non-empty directory), the others can: build must not exit 0
        if !bad(code) || log != [callback, "on_error"] { fail("output_write_failure", "an output that cannot be written makes build fail (handler once, code neither 0 nor 100), also when outputs written AFTER it succeed", format!("code not in {{0,100}}, log [{callback}, on_error]"), format!("code {code}, log {log:?}")); }
        expected_after = after.clone();   // which of the other outputs were written before the failure is not part of the claim
    } else if c.behaviour == "error" {
        if !bad(code) || log != [callback, "on_error"] { fail("callback_error", "a call-back error: handler once, code neither 0 nor 100", format!("code not in {{0,100}}, log [{callback}, on_error]"), format!("code {code}, log {log:?}")); }
    } else if c.exe == "detect" {
        let want = if c.behaviour == "fail" { 100 } else { 0 };
        if code != want || log != ["detect"] { fail("detect_code", "detect exit status", format!("code {want}, log [detect]"), format!("code {code}, log {log:?}")); }
        if c.behaviour == "pass_orplan" {
            // literal expectation (generic TOML reader below would accept any key order): empty head, one alternative
            let plan = libcnb::data::build_plan::BuildPlanBuilder::new().or().provides("jdk").requires("jdk").build();
            let text = toml::to_string(&plan).unwrap();
            let v: toml::Value = toml::from_str(&text).unwrap();
            if v.get("or").and_then(|o| o.as_array()).map(|a| a.len()) != Some(1) { fail("harness", "oracle: the or-plan serialises with one alternative", "1 alternative".into(), text.clone()); }
            expected_after.insert(PathBuf::from("plan-out.toml"), format!("file:{}", hex(text.as_bytes())));
        }
        if c.behaviour == "pass_emptyplan" { expected_after.insert(PathBuf::from("plan-out.toml"), format!("file:{}", hex(toml::to_string(&libcnb::data::build_plan::BuildPlan::new()).unwrap().as_bytes()))); }
        if c.behaviour == "pass_plan" {
            let plan = libcnb::data::build_plan::BuildPlanBuilder::new().provides("witness").requires("witness").build();
            expected_after.insert(PathBuf::from("plan-out.toml"), format!("file:{}", hex(toml::to_string(&plan).unwrap().as_bytes())));
        }
    } else {
        if code != 0 || log != ["build"] { fail("build_code", "build exit status", "code 0, log [build]".into(), format!("code {code}, log {log:?}")); }
        let has = |x: &str| c.parts.contains(&x);
        if has("launch") {
            let l = libcnb::data::launch::LaunchBuilder::new().process(libcnb::data::launch::ProcessBuilder::new(libcnb::data::process_type!("web"), ["witness"]).build()).build();
            expected_after.insert(PathBuf::from("layers/launch.toml"), format!("file:{}", hex(toml::to_string(&l).unwrap().as_bytes())));
        }
        if has("store") {
            let mut tb = toml::Table::new(); tb.insert("witness".into(), toml::Value::String("stored".into()));
            let s = libcnb::data::store::Store { metadata: tb };
            expected_after.insert(PathBuf::from("layers/store.toml"), format!("file:{}", hex(toml::to_string(&s).unwrap().as_bytes())));
        }
        for (i, s) in ["cdx.json", "spdx.json", "syft.json"].iter().enumerate() {
            if has(["b0", "b1", "b2"][i]) { expected_after.insert(PathBuf::from(format!("layers/build.sbom.{s}")), format!("file:{}", hex(format!("build-{i}").as_bytes()))); }
            if has(["l0", "l1", "l2"][i]) { expected_after.insert(PathBuf::from(format!("layers/launch.sbom.{s}")), format!("file:{}", hex(format!("launch-{i}").as_bytes()))); }
        }
        if has("b0x") { expected_after.insert(PathBuf::from("layers/build.sbom.cdx.json"), format!("file:{}", hex(b"build-0-later"))); }
    }
    // a dangling store.toml symlink is written THROUGH when a store is provided (std::fs::write follows it): outside the claim
    let skip_files = c.store == "dangling" && c.parts.contains(&"store");
    if after != expected_after && !skip_files {
        let diff: Vec<String> = expected_after.iter().filter(|(k, v)| after.get(*k) != Some(v)).map(|(k, v)| format!("want {k:?}={v}")).chain(after.iter().filter(|(k, v)| expected_after.get(*k) != Some(v)).map(|(k, v)| format!("got {k:?}={v}"))).take(6).collect();
        fail("outputs_exact", "outputs are written exactly for the parts that were provided; everything else is as before", "see diff".into(), diff.join("; "));
    }
    // ---- C06: the context the call-back was handed
    if !gate_closed && !inputs_bad && log.first().map(String::as_str) != Some(callback) {
        r.violation("context", "every input is present and readable (a store file, if any, is one libcnb wrote itself or a well-formed one): the call-back is reached and handed the context", input.clone(), format!("log starts with {callback}"), format!("code {code}, log {log:?}"));
    }
    if log.first().map(String::as_str) == Some(callback) && !gate_closed {
        let mut want = String::new();
        use std::fmt::Write as _;
        writeln!(want, "app_dir={}", hex(app.as_os_str().as_encoded_bytes())).unwrap();
        writeln!(want, "buildpack_dir={}", hex(bp.as_os_str().as_encoded_bytes())).unwrap();
        let variant = if c.missing_var == "CNB_TARGET_ARCH_VARIANT" { "<none>".to_string() } else if c.missing_var == "CNB_TARGET_ARCH_VARIANT=" { "some:".to_string() } else { "some:v8".to_string() };
        writeln!(want, "target=linux|arm64|{variant}|ubuntu|24.04").unwrap();
        for (k, v) in &expected_env { writeln!(want, "platform_env={k}:{v}").unwrap(); }
        let d: libcnb::data::buildpack::ComponentBuildpackDescriptor<libcnb::generic::GenericMetadata> = toml::from_str(DESCRIPTOR_OK).unwrap();
        writeln!(want, "descriptor={}", hex(format!("{d:?}").as_bytes())).unwrap();
        if c.exe == "build" {
            writeln!(want, "layers_dir={}", hex(layers.as_os_str().as_encoded_bytes())).unwrap();
            let p: libcnb::data::buildpack_plan::BuildpackPlan = toml::from_str(PLAN_TEXT).unwrap();
            writeln!(want, "plan={}", hex(format!("{p:?}").as_bytes())).unwrap();
            let s: Option<libcnb::data::store::Store> = if c.store == "valid" { Some(toml::from_str(STORE_TEXT).unwrap()) } else if c.store == "written_empty" { Some(libcnb::data::store::Store::default()) } else { None };
            writeln!(want, "store={}", hex(format!("{s:?}").as_bytes())).unwrap();
        }
        if dump != want {
            let d: Vec<String> = want.lines().zip(dump.lines().chain(std::iter::repeat(""))).filter(|(a, b)| a != b).map(|(a, b)| format!("want {a} got {b}")).take(3).collect();
            r.violation("context", "the context handed to the call-back is exactly what the platform supplied", input.clone(), "see diff".into(), d.join("; "));
        }
    }
    if r.samples.len() < 4 && c.exe == "build" && !c.parts.is_empty() { r.sample(format!("{input} -> code {code}, log {log:?}")); }
}

pub fn runtime(thorough: bool) -> Report {
    let mut r = Report::new(
        "the real libcnb_runtime in a child process (symlinked as detect/build/other): executable name x argument count {ok,-1,+1} x buildpack.toml {supported, unsupported api, malformed, missing, CNB_BUILDPACK_DIR unset} (gate); each CNB_TARGET_* variable unset; detect behaviour {pass, pass+plan, fail, error} x pre-existing plan file x platform env {missing dir, files incl. empty/newlines/space/unicode/dotted names, symlink to file, sub-directory, symlink to directory}; build {error, pass with subsets of launch/store x build-SBOM sets (incl. a format given twice) x launch-SBOM sets} x pre-existing outputs x store.toml {absent, valid nested, malformed, dangling symlink, non-UTF-8, a directory, a symlink loop} x plan file {ok, missing, non-UTF-8}: exit status, call-back log, context dump and a byte-exact before/after snapshot against the decision table; non-trivial = any non-default dimension",
        if thorough { "gate 3x3x5 x behaviours; full products of the dimensions listed" } else { "gate 3x3x5; the other dimensions varied one or two at a time (see rule)" },
    );
    let exe = std::env::current_exe().unwrap().parent().unwrap().join("rtbp");
    if !exe.exists() { r.violation("harness", "rtbp binary missing", String::new(), exe.display().to_string(), "absent".into()); return r; }
    let mut cfgs = vec![];
    // wrong executable names incl. ones whose STEM is a phase name
    for exe in ["detect.bak", "build.toml", "detect.", "Detect", "detects"] { let mut c = Cfg::base(exe); c.argc_delta = if exe.starts_with("build") { 0 } else { 0 }; cfgs.push(c); }
    for exe in ["detect", "build", "other"] { for d in [0, -1, 1] { for toml in ["ok", "unsupported", "malformed", "missing", "nodirvar"] {
        let behaviours: &[&'static str] = if thorough { &["pass", "error", "fail"] } else { &["pass"] };
        for b in behaviours { let mut c = Cfg::base(exe); c.argc_delta = d; c.toml = toml; c.behaviour = if exe == "build" && *b == "fail" { "error" } else { b }; cfgs.push(c); }
    } } }
    for exe in ["detect", "build"] { for toml in ["plus", "plusminor", "threepart", "padded"] { let mut c = Cfg::base(exe); c.toml = toml; cfgs.push(c); } }
    for exe in ["detect", "build"] { for v in ["CNB_TARGET_OS", "CNB_TARGET_ARCH", "CNB_TARGET_ARCH_VARIANT", "CNB_TARGET_DISTRO_NAME", "CNB_TARGET_DISTRO_VERSION", "CNB_TARGET_ARCH_VARIANT="] {
        let mut c = Cfg::base(exe); c.missing_var = v; cfgs.push(c);
    } }
    for b in ["pass", "pass_plan", "fail", "error"] { for pre in [false, true] { for pf in [0u8, 1] {
        let mut c = Cfg::base("detect"); c.behaviour = b; c.preexisting = pre; c.platform = pf; cfgs.push(c);
    } } }
    let bsets: Vec<Vec<&'static str>> = vec![vec![], vec!["b0"], vec!["b0", "b1", "b2"], vec!["b0", "b0x"], vec!["b2"]];
    let lsets: Vec<Vec<&'static str>> = vec![vec![], vec!["l1"], vec!["l0", "l1", "l2"]];
    for ls in [vec![], vec!["launch"], vec!["store"], vec!["launch", "store"]] { for bs in &bsets { for lsb in &lsets { for pre in [false, true] {
        let stores: &[&'static str] = if thorough { &["absent", "valid", "dangling"] } else { &["absent", "valid"] };
        for st in stores {
            if !thorough && *st == "valid" && !(bs.len() == 1 && lsb.len() <= 1) { continue; }
            let mut c = Cfg::base("build"); c.parts = ls.iter().chain(bs.iter()).chain(lsb.iter()).cloned().collect(); c.preexisting = pre; c.store = st; cfgs.push(c);
        }
    } } } }
    for st in ["malformed", "dangling", "valid", "binary", "directory", "loop", "written_empty"] { for parts in [vec![], vec!["store"]] { let mut c = Cfg::base("build"); c.store = st; c.parts = parts; cfgs.push(c); } }
    for pf in ["missing", "binary"] { let mut c = Cfg::base("build"); c.plan_file = pf; cfgs.push(c); }
    for b in ["pass_orplan", "pass_emptyplan"] { for pre in [false, true] { let mut c = Cfg::base("detect"); c.behaviour = b; c.preexisting = pre; cfgs.push(c); } }
    { let mut c = Cfg::base("detect"); c.behaviour = "pass_plan"; c.same_len = true; cfgs.push(c); }
    { let mut c = Cfg::base("build"); c.parts = vec!["b0", "b1", "b2", "l0", "l1", "l2"]; c.same_len = true; cfgs.push(c); }
    // one output of several cannot be written: the first / middle / last SBOM of a kind, launch.toml
    for (blocked, parts) in [("build.sbom.cdx.json", vec!["b0", "b1", "b2"]), ("build.sbom.spdx.json", vec!["b0", "b1", "b2"]), ("build.sbom.syft.json", vec!["b0", "b1", "b2"]),
                             ("launch.sbom.cdx.json", vec!["l0", "l1", "l2", "launch"]), ("launch.sbom.spdx.json", vec!["l0", "l1"]), ("launch.toml", vec!["launch", "store", "b0"])] {   // (store.toml is also an INPUT: a directory in its place is the store case "directory")
        let mut c = Cfg::base("build"); c.parts = parts; c.blocked = blocked; cfgs.push(c);
    }
    { let mut c = Cfg::base("build"); c.behaviour = "error"; cfgs.push(c); }
    { let mut c = Cfg::base("build"); c.platform = 0; cfgs.push(c); }
    for exe in ["detect", "build"] { let mut c = Cfg::base(exe); c.platform = 2; cfgs.push(c); }
    for c in &cfgs { run_one(&exe, c, &mut r); }
    r
}

// C20 bounded stand-in: the same detect/build logic on identical inputs in two fresh processes leaves byte-identical outputs
pub fn twice(_thorough: bool) -> Report {
    let mut r = Report::new(
        "each scenario run in TWO fresh child processes of the real libcnb_runtime (separate temp roots, hence different hash seeds, pids and times): detect pass+plan (also a plan with 3 alternatives of 5-8 provides and requires each); build with launch/store/all SBOM formats; build doing layer work (uncached layer with 24 environment entries over all scopes incl. three process types and all five behaviours, two SBOMs, 12 exec.d programs, a cached layer with 16 metadata keys); build returning a launch configuration with 4 processes, 8 labels and 3 slices; one with several process types flagged default; build reading and writing back the environment of a restored layer with seven process env dirs, one of them empty: the normalised snapshots of <layers> and the plan file are compared byte for byte; non-trivial = scenarios that write through map-typed inputs",
        "7 scenarios x 2 processes (x 3 repetitions)",
    );
    let exe = std::env::current_exe().unwrap().parent().unwrap().join("rtbp");
    let scenarios: Vec<(&str, Vec<(&str, &str)>)> = vec![
        ("detect", vec![("VERIF_DO", "pass_plan")]),
        ("detect", vec![("VERIF_DO", "pass_richplan")]),
        ("build", vec![("VERIF_DO", "pass"), ("VERIF_PARTS", "launch,store,b0,b1,b2,l0,l1,l2,b0x")]),
        ("build", vec![("VERIF_DO", "pass"), ("VERIF_PARTS", "launch,store"), ("VERIF_LAYERS", "1")]),
        ("build", vec![("VERIF_DO", "pass"), ("VERIF_PARTS", "richlaunch,store,b1,l0")]),
        ("build", vec![("VERIF_DO", "pass"), ("VERIF_PARTS", "richlaunch2,store")]),
        ("build", vec![("VERIF_DO", "pass"), ("VERIF_PARTS", "launch"), ("VERIF_LAYERS", "2")]),
    ];
    for rep in 0..3 { for (exe_name, envs) in &scenarios {
        r.evaluations += 1; if envs.len() > 1 { r.nontrivial += 1; }
        let mut snaps = vec![];
        for _run in 0..2 {
            let t = tempfile::tempdir().unwrap(); let root = t.path().canonicalize().unwrap();
            for d in ["app", "bp", "layers", "platform/env", "bin"] { fs::create_dir_all(root.join(d)).unwrap(); }
            fs::write(root.join("bp/buildpack.toml"), DESCRIPTOR_OK).unwrap(); fs::write(root.join("bp-plan.toml"), PLAN_TEXT).unwrap();
            fs::write(root.join("platform/env/A"), "1").unwrap();
            symlink(&exe, root.join("bin").join(exe_name)).unwrap();
            if envs.iter().any(|(k, v)| *k == "VERIF_LAYERS" && *v == "2") {
                // a restored layer: six process env dirs with one file each, a seventh that is empty, one launch-wide file
                fs::write(root.join("layers/delta.toml"), "[types]\nlaunch = true\ncache = true\n[metadata]\nk = \"v\"\n").unwrap();
                fs::create_dir_all(root.join("layers/delta/env.launch/console")).unwrap();
                fs::write(root.join("layers/delta/env.launch/LANG.default"), "C.UTF-8").unwrap();
                for p in ["web", "worker", "release", "scheduler", "clock", "migrate"] { fs::create_dir_all(root.join("layers/delta/env.launch").join(p)).unwrap(); fs::write(root.join("layers/delta/env.launch").join(p).join(format!("P_{p}.override")), p).unwrap(); }
            }
            let args: Vec<PathBuf> = if *exe_name == "build" { vec![root.join("layers"), root.join("platform"), root.join("bp-plan.toml")] } else { vec![root.join("platform"), root.join("plan-out.toml")] };
            let mut cmd = Command::new(root.join("bin").join(exe_name));
            cmd.args(&args).current_dir(root.join("app")).env_clear().env("CNB_BUILDPACK_DIR", root.join("bp"));
            for (k, v) in [("CNB_TARGET_OS", "linux"), ("CNB_TARGET_ARCH", "arm64"), ("CNB_TARGET_DISTRO_NAME", "ubuntu"), ("CNB_TARGET_DISTRO_VERSION", "24.04")] { cmd.env(k, v); }
            for (k, v) in envs { cmd.env(k, v); }
            let out = cmd.output().unwrap();
            if out.status.code() != Some(0) { r.violation("harness", "scenario did not succeed", format!("{exe_name} {envs:?}"), "exit 0".into(), format!("{:?} {}", out.status, String::from_utf8_lossy(&out.stderr))); }
            let mut snap = snapshot(&root);
            snap.retain(|k, _| k.starts_with("layers") || k.starts_with("plan-out.toml"));
            // exec.d programs are copies of the (large) test binary: compare by length + a cheap checksum instead of hex text
            snaps.push(snap);
        }
        if snaps[0] != snaps[1] {
            let d: Vec<String> = snaps[0].iter().filter(|(k, v)| snaps[1].get(*k) != Some(v)).map(|(k, v)| format!("run1 {k:?}={}", &v[..v.len().min(80)])).chain(snaps[1].iter().filter(|(k, v)| snaps[0].get(*k) != Some(v)).map(|(k, v)| format!("run2 {k:?}={}", &v[..v.len().min(80)]))).take(6).collect();
            r.violation("byte_identical", "two runs on identical inputs left different bytes", format!("{exe_name} {envs:?} (repetition {rep})"), "identical snapshots".into(), d.join("; "));
        }
        if r.samples.len() < 3 { r.sample(format!("{exe_name} {envs:?}: {} entries identical", snaps[0].len())); }
    } }
    r
}
