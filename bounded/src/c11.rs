// C11 witness search: deleting / recreating a layer over generated trees with every symlink kind; canary tree beside the layers dir.
use crate::Report;
use libcnb::build::BuildContext;

use libcnb::generic::{GenericError, GenericMetadata, GenericPlatform};
use libcnb::layer::{CachedLayerDefinition, InvalidMetadataAction, RestoredLayerAction, UncachedLayerDefinition};
use libcnb::{Buildpack, Env, Target};
use std::fs;
use std::os::unix::fs::{PermissionsExt, symlink};
use std::path::{Path, PathBuf};

pub struct B;
impl Buildpack for B {
    type Platform = GenericPlatform;
    type Metadata = GenericMetadata;
    type Error = GenericError;
    fn detect(&self, _c: libcnb::detect::DetectContext<Self>) -> libcnb::Result<libcnb::detect::DetectResult, GenericError> { unimplemented!() }
    fn build(&self, _c: BuildContext<Self>) -> libcnb::Result<libcnb::build::BuildResult, GenericError> { unimplemented!() }
}
pub fn ctx(layers: &Path) -> BuildContext<B> {
    BuildContext {
        layers_dir: layers.to_path_buf(), app_dir: "/tmp".into(), buildpack_dir: "/tmp".into(),
        target: Target { os: "linux".into(), arch: "amd64".into(), arch_variant: None, distro_name: "u".into(), distro_version: "1".into() },
        platform: GenericPlatform::new(Env::new()), buildpack_plan: toml::from_str("").unwrap(),
        buildpack_descriptor: toml::from_str("api = \"0.10\"\n[buildpack]\nid = \"a/b\"\nversion = \"1.0.0\"\n").unwrap(), store: None,
    }
}
pub fn snapshot(root: &Path, skip: &[PathBuf]) -> Vec<(PathBuf, String, u32)> {
    let mut v = vec![];
    fn go(root: &Path, p: &Path, skip: &[PathBuf], v: &mut Vec<(PathBuf, String, u32)>) {
        let mut es: Vec<_> = match fs::read_dir(p) { Ok(r) => r.map(|e| e.unwrap()).collect(), Err(_) => return };
        es.sort_by_key(|e| e.path());
        for e in es {
            let path = e.path();
            if skip.iter().any(|s| path.starts_with(s)) { continue; }
            let md = fs::symlink_metadata(&path).unwrap(); let ft = md.file_type();
            let d = if ft.is_symlink() { format!("link:{:?}", fs::read_link(&path).unwrap()) } else if ft.is_dir() { "dir".into() } else { format!("file:{:?}", fs::read(&path).unwrap_or_default()) };
            v.push((path.strip_prefix(root).unwrap().to_path_buf(), d, md.permissions().mode() & 0o7777));
            if ft.is_dir() { go(root, &path, skip, v); }
        }
    }
    go(root, root, skip, &mut v); v
}
pub fn delete(_thorough: bool) -> Report {
    let mut r = Report::new(
        "witness search on a real tempdir: layer trees built from every entry kind {file, read-only dir, non-executable dir, nested dir, symlink to outside file, symlink to outside dir, symlink to sibling layer, dangling symlink, self loop, relative link} placed at the top and one level down, and the layer path itself being a dir / symlink to an outside dir / symlink to a file / dangling; deleted via uncached_layer and via cached_layer+DeleteLayer: everything outside <layers>/x, x.toml and x.sbom.* (canary tree, sibling layer, modes) is byte- and mode-identical afterwards and the layer is an empty directory; non-trivial = trees containing a symlink or a restricted directory",
        "2 layer names (plain, dotted with a sibling sharing the stem) x 10 entry kinds x 2 depths x 4 layer-path kinds x 2 API calls",
    );
    for lname in ["x", "other.v2"] {
    for layer_kind in 0..4 {
        for entry in 0..10 {
            for depth in 0..2 {
                for api in 0..2 {
                    r.evaluations += 1;
                    if entry != 0 || layer_kind != 0 { r.nontrivial += 1; }
                    let t = tempfile::tempdir().unwrap(); let root = t.path();
                    let outside = root.join("outside"); fs::create_dir_all(outside.join("sub")).unwrap(); fs::write(outside.join("precious"), b"p").unwrap(); fs::write(outside.join("sub/deep"), b"d").unwrap();
                    fs::set_permissions(&outside, fs::Permissions::from_mode(0o750)).unwrap();
                    let layers = root.join("layers"); fs::create_dir_all(layers.join("other/bin")).unwrap(); fs::write(layers.join("other/bin/t"), b"t").unwrap(); fs::write(layers.join("other.toml"), b"[types]\nlaunch = true\n").unwrap();
                    fs::write(layers.join("other.sbom.cdx.json"), b"{}").unwrap();
                    let x = layers.join(lname);
                    let real_dir: PathBuf = match layer_kind {
                        0 => { fs::create_dir(&x).unwrap(); x.clone() }
                        1 => { let target = root.join("linked"); fs::create_dir_all(&target).unwrap(); fs::write(target.join("keepme"), b"k").unwrap(); symlink(&target, &x).unwrap(); target }
                        2 => { symlink(outside.join("precious"), &x).unwrap(); PathBuf::new() }
                        _ => { symlink(root.join("nowhere"), &x).unwrap(); PathBuf::new() }
                    };
                    if layer_kind == 0 {
                        let base = if depth == 0 { x.clone() } else { let d = x.join("d1"); fs::create_dir(&d).unwrap(); d };
                        let e = base.join("e");
                        match entry {
                            0 => fs::write(&e, b"f").unwrap(),
                            1 => { fs::create_dir(&e).unwrap(); fs::write(e.join("f"), b"f").unwrap(); fs::set_permissions(&e, fs::Permissions::from_mode(0o555)).unwrap(); }
                            2 => { fs::create_dir(&e).unwrap(); fs::write(e.join("f"), b"f").unwrap(); fs::set_permissions(&e, fs::Permissions::from_mode(0o644)).unwrap(); }
                            3 => { fs::create_dir_all(e.join("a/b")).unwrap(); fs::write(e.join("a/b/f"), b"f").unwrap(); }
                            4 => symlink(outside.join("precious"), &e).unwrap(),
                            5 => symlink(&outside, &e).unwrap(),
                            6 => symlink(layers.join("other"), &e).unwrap(),
                            7 => symlink(root.join("nowhere"), &e).unwrap(),
                            8 => symlink(&e, &e).unwrap(),
                            _ => symlink("../../outside", &e).unwrap(),
                        }
                    }
                    fs::write(layers.join(format!("{lname}.toml")), b"[types]\ncache = true\n").unwrap(); fs::write(layers.join(format!("{lname}.sbom.spdx.json")), b"{}").unwrap();
                    let skip = vec![layers.join(lname), layers.join(format!("{lname}.toml")), layers.join(format!("{lname}.sbom.cdx.json")), layers.join(format!("{lname}.sbom.spdx.json")), layers.join(format!("{lname}.sbom.syft.json"))];
                    let ln = || lname.parse::<libcnb::data::layer::LayerName>().unwrap();
                    let before = snapshot(root, &skip);
                    let c = ctx(&layers);
                    let res = if api == 0 { c.uncached_layer(ln(), UncachedLayerDefinition { build: true, launch: false }).map(|_| ()) }
                        else { c.cached_layer(ln(), CachedLayerDefinition { build: true, launch: false, invalid_metadata_action: &|_| InvalidMetadataAction::DeleteLayer, restored_layer_action: &|_: &GenericMetadata, _| RestoredLayerAction::DeleteLayer }).map(|_| ()) };
                    // restore permissions the harness itself restricted is not needed: those dirs are inside the layer
                    let after = snapshot(root, &skip);
                    let desc = format!("layer name {lname:?} (sibling layer: other), layer path kind={layer_kind} (0 dir,1 link->dir,2 link->file,3 dangling) entry kind={entry} depth={depth} api={api} (0 uncached_layer,1 cached_layer+DeleteLayer)");
                    if before != after {
                        let diff: Vec<_> = before.iter().filter(|b| !after.contains(b)).take(3).collect();
                        let diff2: Vec<_> = after.iter().filter(|b| !before.contains(b)).take(3).collect();
                        r.violation("outside_untouched", "something outside the layer changed", desc.clone(), format!("{diff:?}"), format!("{diff2:?}"));
                    }
                    let _ = real_dir;
                    // a layer path that is a directory or a symlink to one counts as an existing layer: afterwards a real, empty directory
                    if res.is_ok() && (layer_kind == 0 || layer_kind == 1) {
                        let md = fs::symlink_metadata(&x);
                        let empty = md.as_ref().map(|m| m.is_dir()).unwrap_or(false) && fs::read_dir(&x).map(|mut d| d.next().is_none()).unwrap_or(false);
                        if !empty { r.violation("all_gone", "layer is not an empty real directory after delete+create", desc.clone(), "empty dir".into(), format!("{:?}", md.map(|m| m.file_type()))); }
                        if layers.join(format!("{lname}.sbom.spdx.json")).exists() { r.violation("all_gone", "SBOM of the deleted layer survived", desc.clone(), "absent".into(), "present".into()); }
                    }
                    if res.is_err() && layer_kind == 0 { r.violation("delete_ok", "deleting an ordinary layer tree failed", desc, "Ok".into(), format!("{:?}", res.err().map(|e| e.to_string()))); }
                }
            }
        }
    }
    }
    // directories the owner cannot read or search are only an obstacle for a NON-root user: that part runs as uid 65534 when possible
    if unsafe { libc_geteuid() } == 0 && std::process::Command::new("setpriv").arg("--version").output().is_ok() {
        let t = tempfile::tempdir().unwrap();
        fs::set_permissions(t.path(), fs::Permissions::from_mode(0o777)).unwrap();
        let exe = std::env::current_exe().unwrap();
        let out = std::process::Command::new("setpriv").args(["--reuid=65534", "--regid=65534", "--clear-groups"]).arg(&exe).arg("c11_nonroot").env("VERIF_NONROOT_DIR", t.path()).output();
        match out.ok().and_then(|o| String::from_utf8(o.stdout).ok()).and_then(|s| s.lines().last().map(String::from)) {
            Some(line) if line.starts_with('{') => {
                // violations come back as case|what|input|expected|actual lines in a tiny ad-hoc format inside "violations"
                for chunk in line.split("{\"case\":").skip(1) {
                    let f = |k: &str| chunk.split(&format!("\"{k}\":\"")).nth(1).and_then(|x| x.split("\",\"").next()).unwrap_or("").trim_end_matches("\"}").trim_end_matches("\"}]").to_string();
                    let case = chunk.split('"').nth(1).unwrap_or("nonroot").to_string();
                    r.violation(&case, &f("what"), f("input"), f("expected"), f("actual"));
                }
                r.evaluations += 6; r.nontrivial += 6;
            }
            _ => { r.samples.push("non-root part skipped: child produced no result".into()); }
        }
    } else { r.samples.push("non-root part skipped (not running as root or no setpriv)".into()); }
    r.samples.push("layer path kind=1 (symlink to a directory elsewhere), uncached_layer".into());
    r
}
unsafe fn libc_geteuid() -> u32 { unsafe extern "C" { fn geteuid() -> u32; } unsafe { geteuid() } }

// runs as an unprivileged user inside VERIF_NONROOT_DIR (created 0777 by the parent): layer trees with directories their owner cannot
// read / search / write must still be deletable, and everything of the layer must be gone afterwards
pub fn nonroot(_thorough: bool) -> Report {
    let mut r = Report::new("as uid 65534: layer trees containing directories with modes 0300, 0100, 0000, 0500 (empty and non-empty, nested), deleted via uncached_layer and cached_layer+DeleteLayer: the request succeeds, the layer is an empty directory, metadata and SBOM of the old layer are gone, nothing outside the layer changed", "4 modes x {empty, non-empty} (combined in one tree) x 2 API calls, plus 1 tree per single mode");
    let base = std::path::PathBuf::from(std::env::var("VERIF_NONROOT_DIR").unwrap_or_default());
    if base.as_os_str().is_empty() { return r; }
    let mut n = 0;
    for modes in [vec![0o300u32, 0o100, 0o000, 0o500], vec![0o300], vec![0o000]] { for api in 0..2 {
        r.evaluations += 1; r.nontrivial += 1; n += 1;
        let root = base.join(format!("case{n}")); fs::create_dir_all(root.join("outside")).unwrap(); fs::write(root.join("outside/keep"), b"k").unwrap();
        let layers = root.join("layers"); fs::create_dir_all(layers.join("x/bin")).unwrap(); fs::write(layers.join("x/bin/tool"), b"t").unwrap();
        for (i, m) in modes.iter().enumerate() {
            let full = layers.join(format!("x/d{i}")); fs::create_dir_all(full.join("nested/deeper")).unwrap(); fs::write(full.join("secret.txt"), b"s").unwrap(); fs::write(full.join("nested/deeper/f"), b"f").unwrap();
            let empty = layers.join(format!("x/e{i}")); fs::create_dir(&empty).unwrap();
            fs::set_permissions(full.join("nested"), fs::Permissions::from_mode(*m)).unwrap();
            fs::set_permissions(&full, fs::Permissions::from_mode(*m)).unwrap(); fs::set_permissions(&empty, fs::Permissions::from_mode(*m)).unwrap();
        }
        fs::write(layers.join("x.toml"), b"[types]\ncache = true\n").unwrap(); fs::write(layers.join("x.sbom.spdx.json"), b"{}").unwrap();
        let before = snapshot(&root.join("outside"), &[]);
        let c = ctx(&layers);
        let res = if api == 0 { c.uncached_layer("x".parse::<libcnb::data::layer::LayerName>().unwrap(), UncachedLayerDefinition { build: true, launch: false }).map(|_| ()) }
            else { c.cached_layer("x".parse::<libcnb::data::layer::LayerName>().unwrap(), CachedLayerDefinition { build: true, launch: false, invalid_metadata_action: &|_| InvalidMetadataAction::DeleteLayer, restored_layer_action: &|_: &GenericMetadata, _| RestoredLayerAction::DeleteLayer }).map(|_| ()) };
        let input = format!("uid 65534; nested directories with modes {:?} (octal {}), api {api} (0 uncached_layer, 1 cached_layer+DeleteLayer)", modes, modes.iter().map(|m| format!("{m:o}")).collect::<Vec<_>>().join(" "));
        match res {
            Err(e) => r.violation("delete_restricted_dirs", "a layer containing directories its owner cannot read or search is deleted all the same", input, "Ok".into(), e.to_string().replace('"', "'")),
            Ok(()) => {
                let empty = fs::read_dir(layers.join("x")).map(|mut d| d.next().is_none()).unwrap_or(false);
                if !empty || layers.join("x.sbom.spdx.json").exists() { r.violation("delete_restricted_dirs", "all of the layer's own entries are gone", input.clone(), "empty layer dir, no SBOM".into(), format!("empty={empty} sbom={}", layers.join("x.sbom.spdx.json").exists())); }
                if snapshot(&root.join("outside"), &[]) != before { r.violation("outside_untouched", "something outside the layer changed", input, "unchanged".into(), "changed".into()); }
            }
        }
    } }
    r
}
