// C09 bounded stand-ins: BuildpackVersion::try_from (iterator chain, outside Verus), and the regex engine assumption.
use crate::Report;
use libcnb_data::buildpack::{BuildpackApi, BuildpackId, BuildpackVersion};
use libcnb_data::exec_d::ExecDProgramOutputKey;
use libcnb_data::launch::ProcessType;
use libcnb_data::layer::LayerName;

fn strings(alpha: &[char], max: usize, f: &mut dyn FnMut(&str)) {
    fn go(alpha: &[char], max: usize, cur: &mut String, f: &mut dyn FnMut(&str)) {
        f(cur);
        if cur.chars().count() == max { return; }
        for &c in alpha { cur.push(c); go(alpha, max, cur, f); cur.pop(); }
    }
    go(alpha, max, &mut String::new(), f);
}
// executable form of the spec functions used in units/ids_versions.vrs
fn plain(x: &str) -> Option<u64> {
    if x.is_empty() || !x.chars().all(|c| c.is_ascii_digit()) { return None; }
    let mut v: u128 = 0;
    for c in x.chars() { v = v * 10 + (c as u128 - '0' as u128); if v > u64::MAX as u128 { return None; } }
    Some(v as u64)
}
fn canonical(x: &str) -> Option<u64> { let v = plain(x)?; if x.len() == 1 || !x.starts_with('0') { Some(v) } else { None } }
fn version_grammar(s: &str) -> Option<(u64, u64, u64)> {
    let parts: Vec<&str> = s.split('.').collect();
    if parts.len() != 3 { return None; }
    Some((canonical(parts[0])?, canonical(parts[1])?, canonical(parts[2])?))
}
fn api_grammar(s: &str) -> Option<(u64, u64)> {
    match s.split_once('.') { None => Some((plain(s)?, 0)), Some((a, b)) => Some((plain(a)?, plain(b)?)) }
}

pub fn version(thorough: bool) -> Report {
    let max = if thorough { 8 } else { 7 };
    let mut r = Report::new(
        "all strings over {0 1 9 . + - space a newline é} up to the bound, plus u64 boundary triples: real BuildpackVersion::try_from agrees with the X.Y.Z grammar (value and acceptance), and parse(display(v)) == v; non-trivial = accepted strings and boundary cases",
        &format!("length <= {max} over a 10-character alphabet; 5^3 boundary triples"),
    );
    let alpha = ['0', '1', '9', '.', '+', '-', ' ', 'a', '\n', 'é'];
    strings(&alpha, max, &mut |s| {
        r.evaluations += 1;
        let real = BuildpackVersion::try_from(s.to_string()).ok().map(|v| (v.major, v.minor, v.patch));
        let spec = version_grammar(s);
        if spec.is_some() { r.nontrivial += 1; if r.samples.len() < 2 { r.samples.push(format!("{s:?} -> {spec:?}")); } }
        if real != spec { r.violation("version_try_from", "BuildpackVersion::try_from disagrees with the X.Y.Z grammar", format!("{s:?}"), format!("{spec:?}"), format!("{real:?}")); }
    });
    let b = [0u64, 1, 10, u64::MAX - 1, u64::MAX];
    for &x in &b { for &y in &b { for &z in &b {
        r.evaluations += 1; r.nontrivial += 1;
        let shown = BuildpackVersion::new(x, y, z).to_string();
        let back = BuildpackVersion::try_from(shown.clone()).ok().map(|v| (v.major, v.minor, v.patch));
        if back != Some((x, y, z)) { r.violation("version_roundtrip", "parse(display(v)) != v", format!("{x}.{y}.{z}"), format!("{:?}", Some((x, y, z))), format!("{back:?}")); }
        // one more digit overflows
        let over = format!("{x}.{y}.{z}0000000000000000000000");
        if BuildpackVersion::try_from(over.clone()).is_ok() && version_grammar(&over).is_none() { r.violation("version_overflow", "overflowing component accepted", over, "Err".into(), "Ok".into()); }
    } } }
    r.samples.push("\"18446744073709551615.0.1\" round trip".into());
    r
}

pub fn api(thorough: bool) -> Report {
    let max = if thorough { 7 } else { 6 };
    let mut r = Report::new(
        "witness search for the BuildpackApi::try_from contract (proved in Verus): all strings over {0 1 9 . + - space a} up to the bound against the N | N.M grammar",
        &format!("length <= {max} over an 8-character alphabet"),
    );
    let alpha = ['0', '1', '9', '.', '+', '-', ' ', 'a'];
    strings(&alpha, max, &mut |s| {
        r.evaluations += 1;
        let real = BuildpackApi::try_from(s.to_string()).ok().map(|v| (v.major, v.minor));
        let spec = api_grammar(s);
        if spec.is_some() { r.nontrivial += 1; if r.samples.len() < 2 { r.samples.push(format!("{s:?} -> {spec:?}")); } }
        if real != spec { r.violation("api_try_from", "BuildpackApi::try_from disagrees with the N | N.M grammar", format!("{s:?}"), format!("{spec:?}"), format!("{real:?}")); }
    });
    r
}

fn alnum(c: char) -> bool { c.is_ascii_alphanumeric() }
pub fn ids(thorough: bool) -> Report {
    let max = if thorough { 4 } else { 3 };
    let mut r = Report::new(
        "assumption check for the regex shim: the real FromStr of LayerName/ProcessType/BuildpackId/ExecDProgramOutputKey (macro + fancy_regex) against the executable CNB grammars on all strings over one representative per character class, plus the reserved words with one character added/removed; non-trivial = strings accepted by at least one type",
        &format!("length <= {max} over {{a Z 7 . _ / - + space newline é NUL}}; reserved words +- one char; every ASCII byte alone / beside a letter"),
    );
    let alpha = ['a', 'Z', '7', '.', '_', '/', '-', '+', ' ', '\n', 'é', '\0'];
    let mut check = |s: &str, r: &mut Report| {
        r.evaluations += 1;
        let nonempty = !s.is_empty();
        let exp_layer = nonempty && !s.contains('\n') && !["build", "launch", "store"].contains(&s);
        let exp_proc = nonempty && s.chars().all(|c| alnum(c) || c == '.' || c == '_' || c == '-');
        let exp_id = nonempty && s.chars().all(|c| alnum(c) || c == '.' || c == '/' || c == '-') && !["app", "config", "sbom"].contains(&s);
        let exp_key = nonempty && s.chars().all(|c| alnum(c) || c == '_' || c == '-');
        if exp_layer || exp_proc || exp_id || exp_key { r.nontrivial += 1; }
        let got = (s.parse::<LayerName>().is_ok(), s.parse::<ProcessType>().is_ok(), s.parse::<BuildpackId>().is_ok(), s.parse::<ExecDProgramOutputKey>().is_ok());
        let exp = (exp_layer, exp_proc, exp_id, exp_key);
        if got != exp { r.violation("newtype_from_str", "FromStr (layer, process type, buildpack id, exec.d key) disagrees with the CNB grammars", format!("{s:?}"), format!("{exp:?}"), format!("{got:?}")); }
        // an accepted value renders as the identical string
        if let Ok(v) = s.parse::<ProcessType>() { if v.to_string() != s { r.violation("newtype_display", "accepted value does not render identically", format!("{s:?}"), s.to_string(), v.to_string()); } }
        if let Ok(v) = s.parse::<LayerName>() { if v.to_string() != s || v.as_str() != s { r.violation("newtype_display", "accepted value does not render identically", format!("{s:?}"), s.to_string(), v.to_string()); } }
    };
    strings(&alpha, max, &mut |s| check(s, &mut r));
    // every single ASCII byte alone and next to a letter (character-class edges such as the punctuation between 'Z' and 'a')
    for b in 0u8..128 { let c = b as char; check(&c.to_string(), &mut r); check(&format!("a{c}"), &mut r); check(&format!("{c}a"), &mut r); check(&format!("A{c}0"), &mut r); }
    for w in ["build", "launch", "store", "app", "config", "sbom"] {
        check(w, &mut r);
        check(&w[1..], &mut r);
        check(&w[..w.len() - 1], &mut r);
        for c in ['a', '-', '.', '/', '_', '\n', ' '] { check(&format!("{w}{c}"), &mut r); check(&format!("{c}{w}"), &mut r); }
    }
    r.samples.push("\"build\" rejected as layer name, \"builds\" accepted".into());
    r
}
