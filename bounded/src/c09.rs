// C09 bounded stand-ins: BuildpackVersion::try_from (iterator chain, outside Verus), and the regex engine assumption.
use crate::Report;
use libcnb_data::buildpack::{BuildpackApi, BuildpackId, BuildpackVersion};
use libcnb_data::exec_d::ExecDProgramOutputKey;
use libcnb_data::launch::ProcessType;
use libcnb_data::layer::LayerName;

fn strings(alpha: &[char], max: usize, f: &mut dyn FnMut(&str)) {
    fn go(alpha: &[char], max: usize, cur: &mut String, f: &mut dyn FnMut(&str)) {
        f(cur);
        if cur.chars().count() == max { return; }
        for &c in alpha { cur.push(c); go(alpha, max, cur, f); cur.pop(); }
    }
    go(alpha, max, &mut String::new(), f);
}
// executable form of the spec functions used in units/ids_versions.vrs
fn plain(x: &str) -> Option<u64> {
    if x.is_empty() || !x.chars().all(|c| c.is_ascii_digit()) { return None; }
    let mut v: u128 = 0;
    for c in x.chars() { v = v * 10 + (c as u128 - '0' as u128); if v > u64::MAX as u128 { return None; } }
    Some(v as u64)
}
fn canonical(x: &str) -> Option<u64> { let v = plain(x)?; if x.len() == 1 || !x.starts_with('0') { Some(v) } else { None } }
fn version_grammar(s: &str) -> Option<(u64, u64, u64)> {
    let parts: Vec<&str> = s.split('.').collect();
    if parts.len() != 3 { return None; }
    Some((canonical(parts[0])?, canonical(parts[1])?, canonical(parts[2])?))
}
fn api_grammar(s: &str) -> Option<(u64, u64)> {
    match s.split_once('.') { None => Some((plain(s)?, 0)), Some((a, b)) => Some((plain(a)?, plain(b)?)) }
}

pub fn version(thorough: bool) -> Report {
    let max = if thorough { 8 } else { 7 };
    let mut r = Report::new(
        "all strings over {0 1 9 . + - space a newline é} up to the bound, plus u64 boundary triples: real BuildpackVersion::try_from agrees with the X.Y.Z grammar (value and acceptance), and parse(display(v)) == v; non-trivial = accepted strings and boundary cases",
        &format!("length <= {max} over a 10-character alphabet; 5^3 boundary triples"),
    );
    let alpha = ['0', '1', '9', '.', '+', '-', ' ', 'a', '\n', 'é'];
    strings(&alpha, max, &mut |s| {
        r.evaluations += 1;
        let real = BuildpackVersion::try_from(s.to_string()).ok().map(|v| (v.major, v.minor, v.patch));
        let spec = version_grammar(s);
        if spec.is_some() { r.nontrivial += 1; if r.samples.len() < 2 { r.samples.push(format!("{s:?} -> {spec:?}")); } }
        if real != spec { r.violation("version_try_from", "BuildpackVersion::try_from disagrees with the X.Y.Z grammar", format!("{s:?}"), format!("{spec:?}"), format!("{real:?}")); }
    });
    let b = [0u64, 1, 10, u64::MAX - 1, u64::MAX];
    for &x in &b { for &y in &b { for &z in &b {
        r.evaluations += 1; r.nontrivial += 1;
        let shown = BuildpackVersion::new(x, y, z).to_string();
        let back = BuildpackVersion::try_from(shown.clone()).ok().map(|v| (v.major, v.minor, v.patch));
        if back != Some((x, y, z)) { r.violation("version_roundtrip", "parse(display(v)) != v", format!("{x}.{y}.{z}"), format!("{:?}", Some((x, y, z))), format!("{back:?}")); }
        // one more digit overflows
        let over = format!("{x}.{y}.{z}0000000000000000000000");
        if BuildpackVersion::try_from(over.clone()).is_ok() && version_grammar(&over).is_none() { r.violation("version_overflow", "overflowing component accepted", over, "Err".into(), "Ok".into()); }
    } } }
    r.samples.push("\"18446744073709551615.0.1\" round trip".into());
    r
}

pub fn api(thorough: bool) -> Report {
    let max = if thorough { 7 } else { 6 };
    let mut r = Report::new(
        "witness search for the BuildpackApi::try_from contract (proved in Verus): all strings over {0 1 9 . + - space a} up to the bound against the N | N.M grammar",
        &format!("length <= {max} over an 8-character alphabet"),
    );
    let alpha = ['0', '1', '9', '.', '+', '-', ' ', 'a'];
    strings(&alpha, max, &mut |s| {
        r.evaluations += 1;
        let real = BuildpackApi::try_from(s.to_string()).ok().map(|v| (v.major, v.minor));
        let spec = api_grammar(s);
        if spec.is_some() { r.nontrivial += 1; if r.samples.len() < 2 { r.samples.push(format!("{s:?} -> {spec:?}")); } }
        if real != spec { r.violation("api_try_from", "BuildpackApi::try_from disagrees with the N | N.M grammar", format!("{s:?}"), format!("{spec:?}"), format!("{real:?}")); }
    });
    r
}

fn alnum(c: char) -> bool { c.is_ascii_alphanumeric() }
pub fn ids(thorough: bool) -> Report {
    let max = if thorough { 4 } else { 3 };
    let mut r = Report::new(
        "assumption check for the regex shim: the real FromStr of LayerName/ProcessType/BuildpackId/ExecDProgramOutputKey (macro + fancy_regex) against the executable CNB grammars on all strings over one representative per character class, plus the reserved words with one character added/removed; non-trivial = strings accepted by at least one type",
        &format!("length <= {max} over {{a Z 7 . _ / - + space newline é NUL}}; reserved words +- one char; every ASCII byte alone / beside a letter"),
    );
    let alpha = ['a', 'Z', '7', '.', '_', '/', '-', '+', ' ', '\n', 'é', '\0'];
    let mut check = |s: &str, r: &mut Report| {
        r.evaluations += 1;
        let nonempty = !s.is_empty();
        let exp_layer = nonempty && !s.contains('\n') && !["build", "launch", "store"].contains(&s);
        let exp_proc = nonempty && s.chars().all(|c| alnum(c) || c == '.' || c == '_' || c == '-');
        let exp_id = nonempty && s.chars().all(|c| alnum(c) || c == '.' || c == '/' || c == '-') && !["app", "config", "sbom"].contains(&s);
        let exp_key = nonempty && s.chars().all(|c| alnum(c) || c == '_' || c == '-');
        if exp_layer || exp_proc || exp_id || exp_key { r.nontrivial += 1; }
        let got = (s.parse::<LayerName>().is_ok(), s.parse::<ProcessType>().is_ok(), s.parse::<BuildpackId>().is_ok(), s.parse::<ExecDProgramOutputKey>().is_ok());
        let exp = (exp_layer, exp_proc, exp_id, exp_key);
        if got != exp { r.violation("newtype_from_str", "FromStr (layer, process type, buildpack id, exec.d key) disagrees with the CNB grammars", format!("{s:?}"), format!("{exp:?}"), format!("{got:?}")); }
        // an accepted value renders as the identical string
        if let Ok(v) = s.parse::<ProcessType>() { if v.to_string() != s { r.violation("newtype_display", "accepted value does not render identically", format!("{s:?}"), s.to_string(), v.to_string()); } }
        if let Ok(v) = s.parse::<LayerName>() { if v.to_string() != s || v.as_str() != s { r.violation("newtype_display", "accepted value does not render identically", format!("{s:?}"), s.to_string(), v.to_string()); } }
    };
    strings(&alpha, max, &mut |s| check(s, &mut r));
    // every single ASCII byte alone and next to a letter (character-class edges such as the punctuation between 'Z' and 'a')
    for b in 0u8..128 { let c = b as char; check(&c.to_string(), &mut r); check(&format!("a{c}"), &mut r); check(&format!("{c}a"), &mut r); check(&format!("A{c}0"), &mut r); }
    for w in ["build", "launch", "store", "app", "config", "sbom"] {
        check(w, &mut r);
        check(&w[1..], &mut r);
        check(&w[..w.len() - 1], &mut r);
        for c in ['a', '-', '.', '/', '_', '\n', ' '] { check(&format!("{w}{c}"), &mut r); check(&format!("{c}{w}"), &mut r); }
    }
    r.samples.push("\"build\" rejected as layer name, \"builds\" accepted".into());
    r
}

// C09 bounded stand-in, literal-macro path: the compile-time macros (`layer_name!`, `buildpack_id!`, `process_type!`,
// `exec_d_program_output_key!`) are exercised by COMPILING small crates against the real libcnb-data (cargo check, offline, persistent
// target dir under bounded/target/c09macro). Each crate first uses one macro kind with a valid literal and then the other kinds with
// literals that are valid for the FIRST kind but not for their own: every one of them must be rejected at compile time.
pub fn macros(_thorough: bool) -> Report {
    use std::process::Command;
    let mut r = Report::new(
        "cargo check (offline) of generated crates against the real libcnb-data: one crate with valid literals for all four literal macros in both orders (must compile); per macro kind K one crate that expands K first with a valid literal and then the other kinds with literals that K's grammar accepts but their own grammar rejects (reserved names, '/', '_', '.', spaces): every such invocation must be a compile error naming the literal; non-trivial = the rejecting crates",
        "4 macro kinds as first expansion x 3-5 invalid literals of the other kinds",
    );
    let base = std::path::Path::new(env!("CARGO_MANIFEST_DIR")).join("target/c09macro");
    let krate = base.join("crate"); std::fs::create_dir_all(krate.join("src")).unwrap();
    std::fs::write(krate.join("Cargo.toml"), "[package]\nname = \"macrocheck\"\nversion = \"0.0.0\"\nedition = \"2021\"\n[dependencies]\nlibcnb-data = { path = \"/repo/libcnb-data\" }\n[workspace]\n").unwrap();
    std::fs::write(krate.join("Cargo.lock"), std::fs::read("/repo/Cargo.lock").unwrap()).unwrap();
    let check = |src: &str| -> (bool, String) {
        std::fs::write(krate.join("src/lib.rs"), src).unwrap();
        let out = Command::new("cargo").args(["check", "--offline", "--lib", "--message-format=short"]).current_dir(&krate).env("CARGO_NET_OFFLINE", "true").env("CARGO_TARGET_DIR", base.join("target")).output().unwrap();
        (out.status.success(), String::from_utf8_lossy(&out.stderr).to_string())
    };
    let valid = [("layer_name", "my layer/1"), ("buildpack_id", "heroku/ruby.1"), ("process_type", "web_1.a"), ("exec_d_program_output_key", "KEY_1-a")];
    // ---- every kind with a valid literal, in both orders
    {
        r.evaluations += 1;
        let mut src = String::from("#![allow(unused)]\n");
        for (i, (m, v)) in valid.iter().chain(valid.iter().rev()).enumerate() { src.push_str(&format!("pub fn v{i}() {{ let _ = libcnb_data::{m}!(\"{v}\"); }}\n")); }
        let (ok, err) = check(&src);
        if !ok {
            // a machine without a usable cargo / registry is not a statement about the code under test
            if err.contains("no matching package") || err.contains("failed to select a version") || err.contains("could not find") && err.contains("registry") { eprintln!("harness: cargo cannot build the macro crates offline: {err}"); std::process::exit(3); }
            r.violation("macro_accepts_valid", "valid literals are accepted by the literal macros (in any order of expansion)", src.clone(), "compiles".into(), err.chars().take(600).collect());
            return r;
        }
    }
    // ---- K first, then literals that K accepts and the other kinds reject
    let invalid: [(&str, Vec<(&str, &str)>); 4] = [
        ("layer_name", vec![("buildpack_id", "app"), ("buildpack_id", "a b"), ("process_type", "web worker"), ("process_type", "a/b"), ("exec_d_program_output_key", "A.B")]),
        ("buildpack_id", vec![("layer_name", "build"), ("process_type", "a/b"), ("exec_d_program_output_key", "a.b"), ("exec_d_program_output_key", "a/b")]),
        ("process_type", vec![("layer_name", "launch"), ("buildpack_id", "app"), ("buildpack_id", "a_b"), ("exec_d_program_output_key", "a.b")]),
        ("exec_d_program_output_key", vec![("layer_name", "store"), ("buildpack_id", "sbom"), ("buildpack_id", "a_b")]),
    ];
    for (first, bad) in invalid.iter() {
        r.evaluations += 1; r.nontrivial += 1;
        let fv = valid.iter().find(|(m, _)| m == first).unwrap().1;
        let mut src = format!("#![allow(unused)]\npub fn first() {{ let _ = libcnb_data::{first}!(\"{fv}\"); }}\n");
        for (i, (m, v)) in bad.iter().enumerate() { src.push_str(&format!("pub fn bad{i}() {{ let _ = libcnb_data::{m}!(\"{v}\"); }}\n")); }
        let (ok, err) = check(&src);
        let accepted: Vec<String> = bad.iter().filter(|(_, v)| !err.contains(&format!("\\\"{v}\\\" is not a valid")) && !err.contains(&format!("\"{v}\" is not a valid"))).map(|(m, v)| format!("{m}!(\"{v}\")")).collect();
        if ok || !accepted.is_empty() {
            r.violation("macro_rejects_invalid", "a literal that its own grammar rejects is a compile error, whatever macro was expanded before it in the crate", format!("first expansion {first}!(\"{fv}\"), then {:?}", bad.iter().map(|(m, v)| format!("{m}!(\"{v}\")")).collect::<Vec<_>>()), "every one rejected at compile time".into(), format!("compiled: {ok}; not rejected: {accepted:?}; compiler output: {}", err.chars().take(400).collect::<String>()));
        }
    }
    r.samples.push("after layer_name!(\"my layer/1\"): buildpack_id!(\"app\"), process_type!(\"web worker\"), exec_d_program_output_key!(\"A.B\") are compile errors".into());
    r
}
