// C19 (second sentence) witness search: MappedWrite / TeeWrite on real code, all byte strings over {marker, other}
// up to a bound x all ways of chunking them into write calls.
use crate::Report;
use libherokubuildpack::write::{mapped, tee};
use std::io::Write;

fn reference(input: &[u8], marker: u8) -> Vec<u8> {
    // mapping = wrap every segment in [ ]
    let mut out = vec![]; let mut seg = vec![];
    for &b in input { seg.push(b); if b == marker { out.push(b'['); out.extend(&seg); out.push(b']'); seg.clear(); } }
    if !seg.is_empty() { out.push(b'['); out.extend(&seg); out.push(b']'); }
    out
}
pub fn writers(thorough: bool) -> Report {
    let max = if thorough { 8 } else { 6 };
    let mut r = Report::new(
        "witness search: all byte strings over {marker, other} up to the bound x all ways of splitting them into consecutive write calls (incl. empty writes at the ends): mapped writer output (after drop) == mapping of each marker-terminated segment and of the non-empty remainder; tee gives both targets the full input; non-trivial = inputs containing a marker",
        &format!("length <= {max}, all 2^(n-1) chunkings"),
    );
    for n in 0..=max {
        for bits in 0..(1u32 << n) {
            let input: Vec<u8> = (0..n).map(|i| if bits >> i & 1 == 1 { b'\n' } else { b'x' }).collect();
            let exp = reference(&input, b'\n');
            let cuts = if n == 0 { 1 } else { 1u32 << (n - 1) };
            for cut in 0..cuts {
                r.evaluations += 1;
                if input.contains(&b'\n') { r.nontrivial += 1; }
                let mut out = Vec::new(); let mut a = Vec::new(); let mut b = Vec::new();
                {
                    let mut w = mapped(&mut out, b'\n', |mut v| { let mut o = vec![b'[']; o.append(&mut v); o.push(b']'); o });
                    let mut t = tee(&mut a, &mut b);
                    let mut start = 0;
                    w.write_all(&[]).unwrap();
                    for i in 0..n { if i + 1 == n || cut >> i & 1 == 1 { w.write_all(&input[start..=i]).unwrap(); t.write_all(&input[start..=i]).unwrap(); start = i + 1; } }
                }
                if out != exp { r.violation("mapped_write", "MappedWrite output differs from the mapped segments (+ non-empty remainder)", format!("input={:?} chunking={cut:b}", String::from_utf8_lossy(&input)), format!("{:?}", String::from_utf8_lossy(&exp)), format!("{:?}", String::from_utf8_lossy(&out))); }
                if a != input || b != input { r.violation("tee_write", "TeeWrite did not give both targets the full input", format!("{:?}", input), "both == input".into(), format!("{a:?} / {b:?}")); }
            }
        }
    }
    // tee with targets that accept only part of a buffer per write call (pipes, sockets): each target still gets every byte exactly once
    struct Partial { max: usize, got: Vec<u8> }
    impl Write for Partial { fn write(&mut self, b: &[u8]) -> std::io::Result<usize> { let n = b.len().min(self.max); self.got.extend_from_slice(&b[..n]); Ok(n) } fn flush(&mut self) -> std::io::Result<()> { Ok(()) } }
    for (ma, mb) in [(usize::MAX, 3usize), (2, usize::MAX), (1, 1), (4, 2)] { for input in [&b"foo bar baz"[..], b"l1\nl2\nl3\n", b"x"] {
        r.evaluations += 1; r.nontrivial += 1;
        let mut a = Partial { max: ma, got: vec![] }; let mut b = Partial { max: mb, got: vec![] };
        { let mut t = tee(&mut a, &mut b); t.write_all(input).unwrap(); t.flush().unwrap(); }
        if a.got != input || b.got != input { r.violation("tee_write", "TeeWrite did not give both targets the full input exactly once (targets accepting at most a/b bytes per write call)", format!("{:?} with per-call limits ({ma}, {mb})", String::from_utf8_lossy(input)), "both == input".into(), format!("{:?} / {:?}", String::from_utf8_lossy(&a.got), String::from_utf8_lossy(&b.got))); }
    } }
    r.samples.push("input \"x\\nx\" chunked x | \\nx -> \"[x\\n][x]\"".into());
    r
}
