// C19 (second sentence) witness search: MappedWrite / TeeWrite on real code, all byte strings over {marker, CR, other}
// up to a bound x all ways of chunking them into write calls.
use crate::Report;
use libherokubuildpack::write::{line_mapped, mapped, tee};
use std::io::Write;

fn reference(input: &[u8], marker: u8) -> Vec<u8> {
    // mapping = wrap every segment in [ ]
    let mut out = vec![]; let mut seg = vec![];
    for &b in input { seg.push(b); if b == marker { out.push(b'['); out.extend(&seg); out.push(b']'); seg.clear(); } }
    if !seg.is_empty() { out.push(b'['); out.extend(&seg); out.push(b']'); }
    out
}
pub fn writers(thorough: bool) -> Report {
    let max = if thorough { 8 } else { 6 };
    let mut r = Report::new(
        "witness search: all byte strings over {line feed (the marker), carriage return, other} up to the bound, through `mapped` (finished by drop) and `line_mapped` (finished by unwrap) x all ways of splitting them into consecutive write calls (incl. empty writes at the ends): mapped writer output (after drop) == mapping of each marker-terminated segment and of the non-empty remainder; tee gives both targets the full input; non-trivial = inputs containing a marker",
        &format!("length <= {max}, all 2^(n-1) chunkings"),
    );
    for n in 0..=max {
        for bits in 0..3u32.pow(n as u32) {
            // alphabet {line feed, carriage return, other}: CR is an ordinary byte for the line-mapped writer ("a\r\n" is the segment a CR LF)
            let input: Vec<u8> = (0..n).map(|i| match bits / 3u32.pow(i as u32) % 3 { 0 => b'x', 1 => b'\n', _ => b'\r' }).collect();
            let exp = reference(&input, b'\n');
            let cuts = if n == 0 { 1 } else { 1u32 << (n - 1) };
            for cut in 0..cuts {
                r.evaluations += 1;
                if input.contains(&b'\n') { r.nontrivial += 1; }
                let mut out = Vec::new(); let mut a = Vec::new(); let mut b = Vec::new();
                {
                    let mut w = mapped(&mut out, b'\n', |mut v| { let mut o = vec![b'[']; o.append(&mut v); o.push(b']'); o });
                    let mut t = tee(&mut a, &mut b);
                    let mut start = 0;
                    w.write_all(&[]).unwrap();
                    for i in 0..n { if i + 1 == n || cut >> i & 1 == 1 { w.write_all(&input[start..=i]).unwrap(); t.write_all(&input[start..=i]).unwrap(); start = i + 1; } }
                }
                // the same writes, finished with unwrap() instead of drop: the remainder must be emitted as well
                {
                    let mut w = line_mapped(Vec::new(), |mut v| { let mut o = vec![b'[']; o.append(&mut v); o.push(b']'); o });
                    let mut start = 0;
                    for i in 0..n { if i + 1 == n || cut >> i & 1 == 1 { w.write_all(&input[start..=i]).unwrap(); start = i + 1; } }
                    let got = w.unwrap();
                    if got != exp { r.violation("mapped_write_unwrap", "MappedWrite finished with unwrap(): output differs from the mapped segments (+ non-empty remainder)", format!("input={:?} chunking={cut:b}", String::from_utf8_lossy(&input)), format!("{:?}", String::from_utf8_lossy(&exp)), format!("{:?}", String::from_utf8_lossy(&got))); }
                }
                if out != exp { r.violation("mapped_write", "MappedWrite output differs from the mapped segments (+ non-empty remainder)", format!("input={:?} chunking={cut:b}", String::from_utf8_lossy(&input)), format!("{:?}", String::from_utf8_lossy(&exp)), format!("{:?}", String::from_utf8_lossy(&out))); }
                if a != input || b != input { r.violation("tee_write", "TeeWrite did not give both targets the full input", format!("{:?}", input), "both == input".into(), format!("{a:?} / {b:?}")); }
            }
        }
    }
    // tee with targets that accept only part of a buffer per write call (pipes, sockets): each target still gets every byte exactly once
    struct Partial { max: usize, got: Vec<u8> }
    impl Write for Partial { fn write(&mut self, b: &[u8]) -> std::io::Result<usize> { let n = b.len().min(self.max); self.got.extend_from_slice(&b[..n]); Ok(n) } fn flush(&mut self) -> std::io::Result<()> { Ok(()) } }
    for (ma, mb) in [(usize::MAX, 3usize), (2, usize::MAX), (1, 1), (4, 2)] { for input in [&b"foo bar baz"[..], b"l1\nl2\nl3\n", b"x"] {
        r.evaluations += 1; r.nontrivial += 1;
        let mut a = Partial { max: ma, got: vec![] }; let mut b = Partial { max: mb, got: vec![] };
        { let mut t = tee(&mut a, &mut b); t.write_all(input).unwrap(); t.flush().unwrap(); }
        if a.got != input || b.got != input { r.violation("tee_write", "TeeWrite did not give both targets the full input exactly once (targets accepting at most a/b bytes per write call)", format!("{:?} with per-call limits ({ma}, {mb})", String::from_utf8_lossy(input)), "both == input".into(), format!("{:?} / {:?}", String::from_utf8_lossy(&a.got), String::from_utf8_lossy(&b.got))); }
    } }
    r.samples.push("input \"x\\nx\" chunked x | \\nx -> \"[x\\n][x]\"".into());
    r
}

// C19 (first sentence) bounded stand-in: the real output_and_write_streams / spawn_and_write_streams with scripted child processes.
// Threads, pipes and OS processes are outside any contract the verifier can state, so this clause is only ever checked up to the bound.
pub fn streams(thorough: bool) -> Report {
    use libherokubuildpack::command::CommandExt;
    use std::process::Command;
    use std::sync::mpsc;
    use std::time::Duration;
    let mut r = Report::new(
        "child processes (sh) writing O bytes 'o' to stdout and E bytes 0xE9 (not valid UTF-8) to stderr for O, E in {0, 1, 100, 70000, 300000} (up to ~5 pipe buffers) plus 1500000 (more than a MiB; concurrent pattern only) in 4 patterns (stderr first, stdout first, 20 alternating slices, both at once from two background jobs) and exiting with status 7, run through output_and_write_streams and spawn_and_write_streams with Vec writers: the call returns within the watchdog time (no deadlock), the returned output and the supplied writers each hold exactly the bytes of their stream, the exit status is passed on; non-trivial = runs where a stream exceeds one pipe buffer",
        if thorough { "5 x 5 volumes x 4 patterns x 2 entry points, watchdog 12 s + 48 s" } else { "5 x 5 volumes x 4 patterns (output_and_write_streams), large volumes also spawn_and_write_streams; watchdog 12 s + 48 s" },
    );
    let vols = [0usize, 1, 100, 70_000, 300_000, 1_500_000];   // the last one: more than a MiB per stream (only combined with itself and 0, see below)
    let mut blocked = 0;
    for &o in &vols { for &e in &vols { for pattern in 0..4 { for entry in 0..2 {
        if entry == 1 && !thorough && o.max(e) < 70_000 { continue; }
        if o.max(e) == 1_500_000 && !((o == 1_500_000 || o == 0) && (e == 1_500_000 || e == 0) && pattern == 3) { continue; }
        if blocked >= 2 { continue; }   // two blocked runs are reported; every further one would only cost another watchdog period
        r.evaluations += 1; if o.max(e) >= 70_000 { r.nontrivial += 1; }
        let emit = |n: usize, c: char, fd: &str| if n == 0 { String::from(":") } else { format!("head -c {n} /dev/zero | tr '\\0' '{}' {fd}", if c == 'e' { "\\351".to_string() } else { c.to_string() }) };
        let script = match pattern {
            0 => format!("{}; {}; exit 7", emit(e, 'e', ">&2"), emit(o, 'o', "")),
            1 => format!("{}; {}; exit 7", emit(o, 'o', ""), emit(e, 'e', ">&2")),
            2 => format!("i=0; while [ $i -lt 20 ]; do {}; {}; i=$((i+1)); done; {}; {}; exit 7", emit(o / 20, 'o', ""), emit(e / 20, 'e', ">&2"), emit(o % 20, 'o', ""), emit(e % 20, 'e', ">&2")),
            _ => format!("({}) & ({}) & wait; exit 7", emit(o, 'o', ""), emit(e, 'e', ">&2")),
        };
        let input = format!("stdout {o} bytes, stderr {e} bytes, pattern {pattern} (0 stderr first, 1 stdout first, 2 alternating, 3 concurrent), entry {entry} (0 output_and_write_streams, 1 spawn_and_write_streams): sh -c {script:?}");
        let (tx, rx) = mpsc::channel();
        let sc = script.clone();
        std::thread::spawn(move || {
            let (mut wo, mut we) = (Vec::new(), Vec::new());
            let res = if entry == 0 {
                Command::new("sh").arg("-c").arg(&sc).output_and_write_streams(&mut wo, &mut we).map(|out| (out.status.code(), Some((out.stdout, out.stderr))))
            } else {
                Command::new("sh").arg("-c").arg(&sc).spawn_and_write_streams(&mut wo, &mut we).and_then(|mut c| c.wait()).map(|st| (st.code(), None))
            };
            let _ = tx.send((res.map_err(|e| e.to_string()), wo, we));
        });
        // a deadlock never ends; a slow machine does: after the first 12 s the same run is given another 48 s before it counts as blocked
        let first = rx.recv_timeout(Duration::from_secs(12));
        let outcome = match first { Ok(x) => Ok(x), Err(_) => rx.recv_timeout(Duration::from_secs(48)) };
        match outcome {
            Err(_) => {
                blocked += 1;
                r.violation("stream_returns", "the call returns once both streams close, whatever the volume and interleaving (watchdog expired: deadlock)", input, "returns".into(), "still blocked after 60 s".into());
                let _ = Command::new("pkill").args(["-P", &std::process::id().to_string()]).status();   // unblock the leaked thread's child
            }
            Ok((Err(e), _, _)) => r.violation("stream_runs", "running the child failed", input, "Ok".into(), e),
            Ok((Ok((code, captured)), wo, we)) => {
                let (wanto, wante) = (vec![b'o'; o], vec![0xE9u8; e]);   // stderr carries bytes that are not valid UTF-8
                if wo != wanto || we != wante { r.violation("stream_complete", "the supplied writers receive every byte of their stream", input.clone(), format!("{o} x 'o' / {e} x 'e'"), format!("stdout writer {} bytes ({} 'o'), stderr writer {} bytes ({} 'e')", wo.len(), wo.iter().filter(|b| **b == b'o').count(), we.len(), we.iter().filter(|b| **b == 0xE9).count())); }
                if let Some((so, se)) = captured { if so != wanto || se != wante { r.violation("stream_complete", "the returned output holds every byte of each stream", input.clone(), format!("{o} / {e} bytes"), format!("{} / {} bytes", so.len(), se.len())); } }
                if code != Some(7) { r.violation("stream_status", "the child's exit status is passed on", input, "Some(7)".into(), format!("{code:?}")); }
            }
        }
    } } } }
    r.samples.push("stderr 300000 bytes before stdout 1 byte: returns, both complete".into());
    r
}
