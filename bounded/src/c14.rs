use crate::Report;
pub fn normalize(_thorough: bool) -> Report { Report::new("not implemented yet", "-") }
