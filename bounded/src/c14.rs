// C14 bounded stand-in: normalize_package_descriptor end to end (uriparse + iterator chains are outside Verus).
use crate::Report;
use libcnb_data::buildpack::BuildpackId;
use libcnb_data::package_descriptor::{PackageDescriptor, PackageDescriptorDependency};
use std::collections::BTreeMap;
use std::path::{Path, PathBuf};

#[path = "/repo/libcnb-package/src/package_descriptor.rs"]
#[allow(dead_code, unreachable_pub)]
mod pd;
// reference: lexical normalisation of a relative path against a directory
fn lex(base: &Path, rel: &str) -> PathBuf {
    let mut out: Vec<String> = base.components().filter_map(|c| match c { std::path::Component::Normal(x) => Some(x.to_string_lossy().to_string()), _ => None }).collect();
    for part in rel.split('/') { match part { "" | "." => {}, ".." => { out.pop(); }, x => out.push(x.to_string()) } }
    PathBuf::from(format!("/{}", out.join("/")))
}
pub fn normalize(thorough: bool) -> Report {
    let maxd = if thorough { 3 } else { 2 };
    let mut r = Report::new(
        "every package descriptor with up to D dependencies drawn (with repetition, every order) from {libcnb:known/a, libcnb:known-b, libcnb:unknown, relative paths ./x, ../y, a/./b/../c, ../../../up, docker://img, https://h/p, urn:cnb:registry:x, /abs/./p} x id->path maps {complete, missing one, empty} x 2 descriptor locations: the real normalize_package_descriptor replaces each libcnb: reference by the mapped location (missing id => error, never kept or dropped), makes each relative path absolute and dot-free relative to the descriptor's directory, copies every other URI verbatim, keeps count, order, buildpack URI and platform, and the result serialises and parses again; non-trivial = descriptors with at least one libcnb: or relative dependency",
        &format!("D <= {maxd} dependencies over 14 URI kinds (incl. libcnb: with an empty, reserved and malformed id); plus 6 URIs that are not in normal form (upper-case host/scheme, dot segments, percent-encoding, empty segments) and ids differing only in case"),
    );
    let kinds: Vec<&str> = vec!["libcnb:", "libcnb:app", "libcnb:a_b", "libcnb:known/a", "libcnb:known-b", "libcnb:unknown", "./x", "../y", "a/./b/../c", "../../../up", "docker://img", "https://h/p", "urn:cnb:registry:x", "/abs/./p"];
    let locations = [PathBuf::from("/ws/buildpacks/meta/package.toml"), PathBuf::from("/package.toml")];
    let mut full: BTreeMap<BuildpackId, PathBuf> = BTreeMap::new();
    full.insert("known/a".parse().unwrap(), PathBuf::from("/out/known_a")); full.insert("known-b".parse().unwrap(), PathBuf::from("/out/known-b"));
    let mut partial = full.clone(); partial.remove(&"known-b".parse::<BuildpackId>().unwrap());
    let mut idx = vec![0usize; 0];
    for d in 0..=maxd {
        idx.clear(); idx.resize(d, 0);
        loop {
            let deps: Vec<&str> = idx.iter().map(|&i| kinds[i]).collect();
            let toml_src = format!("[buildpack]\nuri = \".\"\n[platform]\nos = \"windows\"\n{}", deps.iter().map(|u| format!("[[dependencies]]\nuri = \"{u}\"\n")).collect::<String>());
            let descriptor: PackageDescriptor = toml::from_str(&toml_src).unwrap();
            let empty: BTreeMap<BuildpackId, PathBuf> = BTreeMap::new();
            for (mi, map) in [&full, &partial, &empty].iter().enumerate() {
                for loc in &locations {
                    r.evaluations += 1;
                    if deps.iter().any(|u| u.starts_with("libcnb:") || (!u.contains(':') && !u.starts_with('/'))) { r.nontrivial += 1; }
                    let got = pd::normalize_package_descriptor(&descriptor, loc, map);
                    let missing = deps.iter().any(|u| *u == "libcnb:unknown" || ["libcnb:", "libcnb:app", "libcnb:a_b"].contains(u) || (mi == 1 && *u == "libcnb:known-b") || (mi == 2 && u.starts_with("libcnb:")));
                    let desc = format!("deps={deps:?} map={} location={loc:?}", ["complete", "missing known-b", "EMPTY"][mi]);
                    match got {
                        Err(e) => { if !missing { r.violation("unexpected_error", "normalisation failed although every id has a location", desc, "Ok".into(), e.to_string()); } }
                        Ok(n) => {
                            if missing { r.violation("missing_id_is_error", "an id without a known location was left in place or dropped instead of being an error", desc.clone(), "Err".into(), format!("{:?}", n.dependencies.iter().map(|d| d.uri.to_string()).collect::<Vec<_>>())); continue; }
                            let exp: Vec<String> = deps.iter().enumerate().map(|(di, u)| {
                                if let Some(id) = u.strip_prefix("libcnb:") { map.get(&id.parse::<BuildpackId>().unwrap()).unwrap().to_string_lossy().to_string() }
                                else if !u.contains(':') && !u.starts_with('/') { lex(loc.parent().unwrap(), u).to_string_lossy().to_string() }
                                else { let _ = di; u.to_string() } // verbatim = the text of the URI in the source package.toml
                            }).collect();
                            let gotu: Vec<String> = n.dependencies.iter().map(|d| d.uri.to_string()).collect();
                            // one class of difference is reported under its own case id (KNOWN_FINDINGS.txt, F7): a URI with an authority and an EMPTY path
                            // (docker://img) is written with a trailing slash (docker://img/) - everything else is the general `dependencies` case
                            let authority_only = |u: &str| u.split_once("://").map(|(_, rest)| !rest.is_empty() && !rest.contains('/')).unwrap_or(false);
                            let same_but_slash = gotu.len() == exp.len() && gotu.iter().zip(exp.iter()).all(|(g, e)| g == e || (authority_only(e) && *g == format!("{e}/")));
                            if gotu != exp && same_but_slash { r.violation("verbatim_authority_only_uri", "a URI with an authority and an empty path is not copied verbatim: a trailing slash is appended", desc.clone(), format!("{exp:?}"), format!("{gotu:?}")); }
                            else if gotu != exp { r.violation("dependencies", "normalised dependencies (count, order, values)", desc.clone(), format!("{exp:?}"), format!("{gotu:?}")); }
                            if n.buildpack.uri.to_string() != descriptor.buildpack.uri.to_string() || format!("{:?}", n.platform) != format!("{:?}", descriptor.platform) { r.violation("buildpack_and_platform_kept", "buildpack URI / platform changed", desc.clone(), "unchanged".into(), "changed".into()); }
                            match toml::to_string(&n).ok().and_then(|s| toml::from_str::<PackageDescriptor>(&s).ok()) { Some(back) => { if format!("{back:?}") != format!("{n:?}") { r.violation("reparse", "result does not parse back to itself", desc.clone(), "equal".into(), "different".into()); } } None => r.violation("reparse", "result does not serialise/parse", desc.clone(), "Ok".into(), "Err".into()) }
                        }
                    }
                }
            }
            let mut p = d;
            loop { if p == 0 { break; } p -= 1; idx[p] += 1; if idx[p] < kinds.len() { break; } idx[p] = 0; if p == 0 { p = usize::MAX; break; } }
            if d == 0 || p == usize::MAX { break; }
            if idx.iter().all(|&i| i == 0) { break; }
        }
    }
    // ---- URIs that are not in RFC 3986 normal form are copied verbatim too; ids are case-sensitive keys
    {
        let odd = ["docker://Registry.Example.COM/Org/Image:Tag", "https://example.com/releases/../latest/./x.tgz", "https://example.com/a%2db%7e.tgz", "HTTPS://example.com/x", "docker://img:5000/a//b", "urn:CNB:Registry:X"];
        let mut map: BTreeMap<BuildpackId, PathBuf> = BTreeMap::new();
        map.insert("Known/A".parse().unwrap(), PathBuf::from("/out/upper"));
        for with_lower in [false, true] {
            if with_lower { map.insert("known/a".parse().unwrap(), PathBuf::from("/out/lower")); }
            for u in odd.iter().copied().chain(["libcnb:known/a", "libcnb:Known/A", "libcnb:KNOWN/A"]) {
                r.evaluations += 1; r.nontrivial += 1;
                let toml_src = format!("[buildpack]\nuri = \".\"\n[[dependencies]]\nuri = \"{u}\"\n[[dependencies]]\nuri = \"../y\"\n");
                let descriptor: PackageDescriptor = toml::from_str(&toml_src).unwrap();
                let got = pd::normalize_package_descriptor(&descriptor, Path::new("/ws/bp/package.toml"), &map).map(|n| n.dependencies.iter().map(|d| d.uri.to_string()).collect::<Vec<_>>());
                let want: Result<Vec<String>, ()> = match u.strip_prefix("libcnb:") {
                    Some("Known/A") => Ok(vec!["/out/upper".into(), "/ws/y".into()]),
                    Some("known/a") if with_lower => Ok(vec!["/out/lower".into(), "/ws/y".into()]),
                    Some(_) => Err(()),
                    None => Ok(vec![u.to_string(), "/ws/y".into()]),
                };
                let desc = format!("deps=[{u}, ../y] map keys {:?} (ids are case-sensitive)", map.keys().map(|k| k.to_string()).collect::<Vec<_>>());
                match (&got, &want) {
                    (Ok(g), Ok(w)) if g == w => {}
                    (Err(_), Err(())) => {}
                    // one class is reported under its own case id (KNOWN_FINDINGS.txt, F8): an upper-case SCHEME is written in lower case (uriparse canonicalises known schemes)
                    (Ok(g), Ok(w)) if !u.starts_with("libcnb:") && g.len() == w.len() && g[1..] == w[1..] && u.split_once(':').map(|(sch, rest)| sch.chars().any(|c| c.is_ascii_uppercase()) && g[0] == format!("{}:{rest}", sch.to_ascii_lowercase())).unwrap_or(false) =>
                        r.violation("verbatim_upper_case_scheme", "a URI whose scheme is written in upper case is not copied verbatim: the scheme is lower-cased", desc, format!("{w:?}"), format!("{g:?}")),
                    _ => r.violation(if u.starts_with("libcnb:") { "ids_case_sensitive" } else { "verbatim_non_normal_form" }, "an id is looked up exactly (case-sensitive); a non-path URI is copied verbatim even when it is not in normal form", desc, format!("{want:?}"), format!("{:?}", got.map_err(|e| e.to_string()))),
                }
            }
        }
    }
    let _ = PackageDescriptorDependency::try_from("docker://x");
    r.samples.push("deps [libcnb:known/a, ../y, docker://img] at /ws/buildpacks/meta/package.toml -> [/out/known_a, /ws/buildpacks/y, docker://img]".into());
    r
}

// C14 bounded stand-in, packaging level: the PUBLIC package_composite_buildpack on a real directory; the written package.toml is read with a
// generic TOML reader (not libcnb-data's types).
pub fn package(_thorough: bool) -> Report {
    use std::fs;
    let mut r = Report::new(
        "package_composite_buildpack(<dir>, <destination>, id->path map) on real directories for 3 source locations (different depths) x complete / incomplete map: the written package.toml (generic TOML reader) lists, in order, the mapped location for each libcnb: reference, the absolute dot-free path each relative path denotes RELATIVE TO THE SOURCE package.toml, every other URI verbatim; buildpack uri and platform as in the source; buildpack.toml copied byte-identically; an id without a location is an error; non-trivial = all",
        "3 locations x 2 maps, 9 dependencies of 8 kinds",
    );
    let deps = ["libcnb:demo/one", "sibling", "./a/./b//c/", "../outside/x/../y", "/abs/p", "docker://docker.io/heroku/example:1.2.3", "https://example.com/meta.tgz", "urn:cnb:registry:heroku/x", "libcnb:demo/two"];
    for (li, rel_dir) in ["src/meta", "m", "a/b/c/d/meta"].iter().enumerate() { for complete in [true, false] {
        r.evaluations += 1; r.nontrivial += 1;
        let t = tempfile::tempdir().unwrap(); let root = t.path().canonicalize().unwrap();
        let src = root.join(rel_dir); let dst = root.join("out/deep/meta_pkg"); fs::create_dir_all(&src).unwrap(); fs::create_dir_all(&dst).unwrap();
        let bp_toml = "api = \"0.10\"\n# a comment that must survive the copy\n[buildpack]\nid = \"demo/meta\"\nversion = \"0.0.1\"\n[[order]]\n[[order.group]]\nid = \"demo/one\"\nversion = \"1.0.0\"\n";
        fs::write(src.join("buildpack.toml"), bp_toml).unwrap();
        fs::write(src.join("package.toml"), format!("[buildpack]\nuri = \"https://example.com/meta-buildpack.tgz\"\n[platform]\nos = \"windows\"\n{}", deps.iter().map(|u| format!("[[dependencies]]\nuri = \"{u}\"\n")).collect::<String>())).unwrap();
        let mut map: BTreeMap<BuildpackId, PathBuf> = BTreeMap::new();
        map.insert("demo/one".parse().unwrap(), PathBuf::from("/packaged/demo_one"));
        if complete { map.insert("demo/two".parse().unwrap(), PathBuf::from("/packaged/two")); }
        let input = format!("source {rel_dir}/package.toml (location {li}), map {}", if complete { "complete" } else { "without demo/two" });
        let res = libcnb_package::package::package_composite_buildpack(&src, &dst, &map);
        if complete && li == 0 {
            let empty: BTreeMap<BuildpackId, PathBuf> = BTreeMap::new();
            let d2 = root.join("out/empty-map"); fs::create_dir_all(&d2).unwrap();
            if libcnb_package::package::package_composite_buildpack(&src, &d2, &empty).is_ok() { r.violation("package_missing_id", "an id without a known location is an error (EMPTY id->path map)", input.clone(), "Err".into(), format!("Ok, package.toml: {:?}", fs::read_to_string(d2.join("package.toml")).unwrap_or_default())); }
        }
        if !complete {
            if res.is_ok() { r.violation("package_missing_id", "an id without a known location is an error", input, "Err".into(), "Ok".into()); }
            // ... and "never left in place": the failed call leaves no package.toml with the unresolved libcnb: reference in the destination
            else if let Ok(left) = fs::read_to_string(dst.join("package.toml")) { if left.contains("libcnb:") { r.violation("package_missing_id", "when an id has no known location the call fails WITHOUT leaving a package.toml that still carries libcnb: references in the destination", input, "no package.toml (or none with libcnb: references)".into(), left.chars().take(300).collect()); } }
            continue;
        }
        if let Err(e) = res { r.violation("package", "packaging a well-formed composite buildpack failed", input, "Ok".into(), e.to_string()); continue; }
        let written: toml::Value = match fs::read_to_string(dst.join("package.toml")).ok().and_then(|s| toml::from_str(&s).ok()) { Some(v) => v, None => { r.violation("package", "the written package.toml is not valid TOML", input, "TOML".into(), "unreadable".into()); continue; } };
        let got: Vec<String> = written.get("dependencies").and_then(|d| d.as_array()).map(|a| a.iter().map(|x| x.get("uri").and_then(|u| u.as_str()).unwrap_or("<no uri>").to_string()).collect()).unwrap_or_default();
        let want: Vec<String> = deps.iter().map(|u| match *u {
            "libcnb:demo/one" => "/packaged/demo_one".to_string(), "libcnb:demo/two" => "/packaged/two".to_string(),
            u if !u.contains(':') && !u.starts_with('/') => lex(&src, u).to_string_lossy().to_string(),
            u => u.to_string() }).collect();
        if got != want { r.violation("package_dependencies", "dependencies of the written package.toml (relative paths resolved against the SOURCE package.toml's directory)", input.clone(), format!("{want:?}"), format!("{got:?}")); }
        let bu = written.get("buildpack").and_then(|b| b.get("uri")).and_then(|u| u.as_str()).unwrap_or("<none>").to_string();
        let os = written.get("platform").and_then(|b| b.get("os")).and_then(|u| u.as_str()).unwrap_or("<none>").to_string();
        if bu != "https://example.com/meta-buildpack.tgz" || os != "windows" { r.violation("package_buildpack_and_platform", "buildpack uri and platform are preserved", input.clone(), "https://example.com/meta-buildpack.tgz / windows".into(), format!("{bu} / {os}")); }
        if fs::read_to_string(dst.join("buildpack.toml")).ok().as_deref() != Some(bp_toml) { r.violation("package_buildpack_toml", "buildpack.toml is copied byte-identically", input, "identical".into(), "different".into()); }
    } }
    r.samples.push("src/meta/package.toml: ../outside/x/../y -> <root>/src/outside/y".into());
    r
}
