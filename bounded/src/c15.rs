// C15 bounded stand-in: the real `cargo libcnb package` (built from /repo's libcnb-cargo) run offline on generated workspaces for the HOST target;
// cargo subprocesses, cargo_metadata, ignore::Walk and compiled binaries are outside any contract the verifier can state.
use crate::Report;
use std::collections::{BTreeMap, BTreeSet};
use std::fs;
use std::os::unix::fs::symlink;
use std::path::{Path, PathBuf};
use std::process::Command;

const TARGET: &str = "x86_64-unknown-linux-gnu";
fn persistent() -> PathBuf { Path::new(env!("CARGO_MANIFEST_DIR")).join("target/c15") }

type Tree = BTreeMap<PathBuf, String>;   // relative path -> "dir" | "link:<target>" | "file:<len>:<hash>"
fn tree(root: &Path) -> Tree {
    fn h(b: &[u8]) -> u64 { let mut x: u64 = 0xcbf29ce484222325; for c in b { x ^= *c as u64; x = x.wrapping_mul(0x100000001b3); } x }
    fn go(root: &Path, p: &Path, out: &mut Tree) {
        let Ok(rd) = fs::read_dir(p) else { return };
        for e in rd { let e = e.unwrap(); let path = e.path(); let rel = path.strip_prefix(root).unwrap().to_path_buf(); let ft = e.file_type().unwrap();
            if ft.is_symlink() { out.insert(rel, format!("link:{}", fs::read_link(&path).unwrap().display())); }
            else if ft.is_dir() { out.insert(rel, "dir".into()); go(root, &path, out); }
            else { let b = fs::read(&path).unwrap_or_default(); out.insert(rel, format!("file:{}:{:x}", b.len(), h(&b))); } }
    }
    let mut t = Tree::new(); go(root, root, &mut t); t
}
fn fdesc(b: &[u8]) -> String { let mut x: u64 = 0xcbf29ce484222325; for c in b { x ^= *c as u64; x = x.wrapping_mul(0x100000001b3); } format!("file:{}:{:x}", b.len(), x) }
fn lex(base: &Path, rel: &str) -> String {
    let mut out: Vec<String> = base.components().filter_map(|c| match c { std::path::Component::Normal(x) => Some(x.to_string_lossy().to_string()), _ => None }).collect();
    for part in rel.split('/') { match part { "" | "." => {}, ".." => { out.pop(); }, x => out.push(x.to_string()) } }
    format!("/{}", out.join("/"))
}

struct Bp { id: &'static str, dir: &'static str, rust: Option<(&'static str, &'static [&'static str])>, deps: &'static [&'static str] }   // rust: (crate name, additional bins); deps: package.toml URIs
const BPS: &[Bp] = &[
    Bp { id: "demo/r", dir: "buildpacks/r", rust: Some(("demo-r", &["extra", "tool2"])), deps: &[] },
    Bp { id: "demo/r2", dir: "buildpacks/r2", rust: Some(("demo-r2", &["helper"])), deps: &[] },
    Bp { id: "demo/r3", dir: "buildpacks/r3", rust: Some(("demo-r3", &[])), deps: &[] },
    Bp { id: "demo/a", dir: "buildpacks/a", rust: None, deps: &["libcnb:demo/r", "docker://docker.io/heroku/example:1.2.3"] },
    Bp { id: "demo/b", dir: "meta/b", rust: None, deps: &["../vendor/./bash", "libcnb:demo/a", "https://example.com/x.tgz", "libcnb:demo/r2", "libcnb:demo/r3"] },
];
const MAIN_RS: &str = "use libcnb::build::{BuildContext, BuildResult, BuildResultBuilder};\nuse libcnb::detect::{DetectContext, DetectResult, DetectResultBuilder};\nuse libcnb::generic::{GenericError, GenericMetadata, GenericPlatform};\nuse libcnb::{buildpack_main, Buildpack};\nstruct B;\nimpl Buildpack for B {\n    type Platform = GenericPlatform; type Metadata = GenericMetadata; type Error = GenericError;\n    fn detect(&self, _c: DetectContext<Self>) -> libcnb::Result<DetectResult, Self::Error> { DetectResultBuilder::pass().build() }\n    fn build(&self, _c: BuildContext<Self>) -> libcnb::Result<BuildResult, Self::Error> { BuildResultBuilder::new().build() }\n}\nbuildpack_main!(B);\n";
fn bp_toml(b: &Bp) -> String {
    if b.rust.is_some() { format!("api = \"0.10\"\n# a comment that must survive the copy\n[buildpack]\nid = \"{}\"\nversion = \"0.0.1\"\n", b.id) }
    else { format!("api = \"0.10\"\n[buildpack]\nid = \"{}\"\nversion = \"0.0.1\"\n\n[[order]]\n[[order.group]]\nid = \"demo/r\"\nversion = \"0.0.1\"\n", b.id) }
}
fn put(p: PathBuf, content: &str) { if fs::read_to_string(&p).ok().as_deref() != Some(content) { fs::write(p, content).unwrap(); } }
fn write_workspace(root: &Path) {
    let members: Vec<String> = BPS.iter().filter(|b| b.rust.is_some()).map(|b| format!("\"{}\"", b.dir)).collect();
    put(root.join("Cargo.toml"), &format!("[workspace]\nresolver = \"2\"\nmembers = [{}]\n", members.join(", ")));
    put(root.join("Cargo.lock"), &fs::read_to_string("/repo/Cargo.lock").unwrap());
    put(root.join(".ignore"), "packaged/\nout/\n");
    for b in BPS {
        let d = root.join(b.dir); fs::create_dir_all(&d).unwrap();
        fs::write(d.join("buildpack.toml"), bp_toml(b)).unwrap();
        if let Some((krate, extra)) = b.rust {
            fs::create_dir_all(d.join("src/bin")).unwrap();
            put(d.join("Cargo.toml"), &format!("[package]\nname = \"{krate}\"\nversion = \"0.0.0\"\nedition = \"2021\"\n[dependencies]\nlibcnb = {{ path = \"/repo/libcnb\" }}\n"));
            put(d.join("src/main.rs"), MAIN_RS);
            for x in extra { put(d.join(format!("src/bin/{x}.rs")), &format!("fn main() {{ println!(\"{x}\"); }}\n")); }
        } else {
            // demo/b declares a non-default platform: everything but the dependency URIs is carried over
            put(d.join("package.toml"), &format!("[buildpack]\nuri = \".\"\n{}{}", b.deps.iter().map(|u| format!("[[dependencies]]\nuri = \"{u}\"\n")).collect::<String>(), if b.id == "demo/b" { "[platform]\nos = \"windows\"\n" } else { "" }));
        }
    }
    // a buildpack that is neither libcnb.rs nor composite: never packaged
    fs::create_dir_all(root.join("buildpacks/other")).unwrap();
    put(root.join("buildpacks/other/buildpack.toml"), "api = \"0.10\"\n[buildpack]\nid = \"demo/other\"\nversion = \"0.0.1\"\n");
}
fn closure(id: &str, out: &mut BTreeSet<&'static str>) {
    let b = BPS.iter().find(|b| b.id == id).unwrap();
    if out.insert(b.id) { for d in b.deps { if let Some(x) = d.strip_prefix("libcnb:") { closure(x, out); } } }
}

pub fn package(thorough: bool) -> Report {
    let mut r = Report::new(
        "the real `cargo libcnb package` (libcnb-cargo built from /repo, offline, host target) on a generated workspace of 3 libcnb.rs buildpacks (with two, one and no additional binary targets), 2 composite buildpacks (libcnb:, relative-path, docker and https dependencies, forming a DAG), a non-libcnb buildpack directory and an ignore file for the output directories x invocation directory {workspace root, each buildpack directory} x package dir {default, relative --package-dir, absolute --package-dir} x output directories {empty, pre-seeded with stale and foreign content for every buildpack}: exit status 0; stdout lists exactly the selected buildpacks' output directories; for exactly the selected buildpacks and their dependencies the output directory holds exactly a byte-identical buildpack.toml, bin/build = the compiled main binary, bin/detect = symlink to build, .libcnb-cargo/additional-bin/<target> per additional binary (no such directory without one), package.toml (uri \".\"; for composites: libcnb: references replaced by the dependency's output directory, relative paths absolute, other URIs verbatim); pre-seeded runs end in the same tree as runs into an empty directory; output directories of unselected buildpacks are untouched; non-trivial = all",
        if thorough { "6 invocation directories x 3 package dirs x 2 profiles x 2 seedings" } else { "6 invocation directories x 3 package dirs x dev profile x 2 seedings" },
    );
    let pers = persistent(); fs::create_dir_all(&pers).unwrap();
    // the tool itself, rebuilt from the current tree (incremental)
    let st = Command::new("cargo").args(["build", "--offline", "-p", "libcnb-cargo", "--target-dir"]).arg(pers.join("cargo-libcnb")).current_dir("/repo").env("CARGO_NET_OFFLINE", "true").output().unwrap();
    let tool = pers.join("cargo-libcnb/debug/cargo-libcnb");
    if !st.status.success() || !tool.exists() { r.violation("harness", "libcnb-cargo does not build", String::new(), "built".into(), String::from_utf8_lossy(&st.stderr).chars().rev().take(600).collect::<String>().chars().rev().collect()); return r; }
    let ws_target = pers.join("ws");
    let cargo_bin = String::from_utf8_lossy(&Command::new("sh").args(["-c", "command -v cargo"]).output().unwrap().stdout).trim().to_string();
    let profiles: &[(&str, bool)] = if thorough { &[("debug", false), ("release", true)] } else { &[("debug", false)] };
    let inv_dirs: Vec<(&str, Vec<&str>)> = { let mut v = vec![(".", BPS.iter().map(|b| b.id).collect::<Vec<_>>())]; for b in BPS { v.push((b.dir, vec![b.id])); } v };
    let root = pers.join(if thorough { "workspace-thorough" } else { "workspace-quick" });
    fs::create_dir_all(&root).unwrap(); let root = root.canonicalize().unwrap();
    // serialise concurrent runs of the same tier
    let lock = root.join(".lock"); let mut waited = 0;
    while fs::create_dir(&lock).is_err() { std::thread::sleep(std::time::Duration::from_millis(500)); waited += 1; if waited > 600 { let _ = fs::remove_dir(&lock); } }
    struct Unlock(PathBuf); impl Drop for Unlock { fn drop(&mut self) { let _ = fs::remove_dir(&self.0); } }
    let _unlock = Unlock(lock);
    write_workspace(&root);
    for (profile, release) in profiles { for (inv, roots) in &inv_dirs { for pk in 0..3 { for seeded in [false, true] {
        r.evaluations += 1; r.nontrivial += 1;
        // one persistent workspace per tier (sources rewritten only when they differ, so cargo rebuilds only what changed); outputs are wiped per run
        let _ = fs::remove_dir_all(root.join("packaged")); let _ = fs::remove_dir_all(root.join("out")); for b in BPS { let _ = fs::remove_dir_all(root.join(b.dir).join("out")); }
        let cwd = root.join(inv);
        let (pk_arg, pk_abs): (Option<String>, PathBuf) = match pk { 0 => (None, root.join("packaged")), 1 => (Some("out/./pk".into()), PathBuf::from(lex(&cwd, "out/./pk"))), _ => (Some(root.join("out/abs").display().to_string()), root.join("out/abs")) };
        let out_dir = |id: &str| pk_abs.join(TARGET).join(profile).join(id.replace('/', "_"));
        let mut selected = BTreeSet::new(); for id in roots { closure(id, &mut selected); }
        if seeded { for b in BPS {
            let d = out_dir(b.id); fs::create_dir_all(d.join("bin")).unwrap(); fs::create_dir_all(d.join(".libcnb-cargo/additional-bin")).unwrap();
            fs::write(d.join("stale.txt"), "stale").unwrap(); fs::write(d.join("bin/detect"), "not a link").unwrap(); fs::write(d.join("bin/old-build"), "x").unwrap();
            fs::write(d.join(".libcnb-cargo/additional-bin/old"), "x").unwrap(); fs::write(d.join("package.toml"), "garbage = [").unwrap(); let _ = symlink("/nonexistent", d.join("dangling"));
        } }
        let before_unselected: Vec<(String, Tree)> = BPS.iter().filter(|b| !selected.contains(b.id)).map(|b| (b.id.to_string(), tree(&out_dir(b.id)))).collect();
        let mut cmd = Command::new(&tool);
        cmd.args(["libcnb", "package", "--target", TARGET, "--no-cross-compile-assistance"]).current_dir(&cwd).env("CARGO_NET_OFFLINE", "true").env("CARGO_TARGET_DIR", &ws_target).env("CARGO", &cargo_bin);
        if *release { cmd.arg("--release"); }
        if let Some(a) = &pk_arg { cmd.arg("--package-dir").arg(a); }
        let out = cmd.output().unwrap();
        let input = format!("invocation directory {inv:?}, package dir {} (variant {pk}), profile {profile}, output directories {}", pk_arg.clone().unwrap_or("<default>".into()), if seeded { "pre-seeded with stale content" } else { "empty" });
        if !out.status.success() { r.violation("package_runs", "packaging a well-formed workspace failed", input, "exit 0".into(), format!("{:?}: {}", out.status.code(), String::from_utf8_lossy(&out.stderr).lines().rev().take(3).collect::<Vec<_>>().join(" | "))); continue; }
        // stdout: exactly the selected (root) buildpacks' output directories
        let mut got_lines: Vec<String> = String::from_utf8_lossy(&out.stdout).lines().map(String::from).collect(); got_lines.sort();
        let mut want_lines: Vec<String> = roots.iter().map(|id| out_dir(id).display().to_string()).collect(); want_lines.sort();
        if got_lines != want_lines { r.violation("stdout", "stdout lists exactly the selected buildpacks' output directories", input.clone(), format!("{want_lines:?}"), format!("{got_lines:?}")); }
        // every selected buildpack (and dependency): exact directory content
        for id in &selected {
            let b = BPS.iter().find(|b| b.id == *id).unwrap(); let d = out_dir(id);
            let mut want = Tree::new();
            want.insert("buildpack.toml".into(), fdesc(bp_toml(b).as_bytes()));
            if let Some((krate, extra)) = b.rust {
                let bin_dir = ws_target.join(TARGET).join(profile);
                want.insert("bin".into(), "dir".into());
                want.insert("bin/build".into(), fdesc(&fs::read(bin_dir.join(krate)).unwrap_or_default()));
                want.insert("bin/detect".into(), "link:build".into());
                if !extra.is_empty() { want.insert(".libcnb-cargo".into(), "dir".into()); want.insert(".libcnb-cargo/additional-bin".into(), "dir".into()); }
                for x in extra { want.insert(format!(".libcnb-cargo/additional-bin/{x}").into(), fdesc(&fs::read(bin_dir.join(x)).unwrap_or_default())); }
            }
            let mut got = tree(&d);
            // package.toml is compared by content (generic TOML reader), everything else byte for byte
            let ptoml = got.remove(Path::new("package.toml"));
            if got != want { r.violation("directory_content", "the output directory holds exactly buildpack.toml, bin/build, bin/detect -> build and the additional binaries (nothing stale, nothing missing)", format!("{input}; buildpack {id}"), format!("{want:?}"), format!("{got:?}")); }
            let parsed: Option<toml::Value> = fs::read_to_string(d.join("package.toml")).ok().and_then(|s| toml::from_str(&s).ok());
            match (ptoml, parsed) {
                (Some(_), Some(v)) => {
                    let uri = v.get("buildpack").and_then(|x| x.get("uri")).and_then(|x| x.as_str()).unwrap_or("<none>").to_string();
                    let deps: Vec<String> = v.get("dependencies").and_then(|x| x.as_array()).map(|a| a.iter().map(|x| x.get("uri").and_then(|u| u.as_str()).unwrap_or("<no uri>").to_string()).collect()).unwrap_or_default();
                    let want_deps: Vec<String> = b.deps.iter().map(|u| if let Some(x) = u.strip_prefix("libcnb:") { out_dir(x).display().to_string() } else if !u.contains(':') && !u.starts_with('/') { lex(&root.join(b.dir), u) } else { u.to_string() }).collect();
                    let os = v.get("platform").and_then(|x| x.get("os")).and_then(|x| x.as_str()).unwrap_or("linux").to_string();
                    let want_os = if b.id == "demo/b" { "windows" } else { "linux" };
                    if os != want_os { r.violation("package_toml", "package.toml: the declared platform is carried over (default linux)", format!("{input}; buildpack {id}"), want_os.into(), os); }
                    if uri != "." || deps != want_deps { r.violation("package_toml", "package.toml: uri \".\", libcnb: references replaced by the dependency's output directory, relative paths absolute, other URIs verbatim, in order", format!("{input}; buildpack {id}"), format!("uri . deps {want_deps:?}"), format!("uri {uri} deps {deps:?}")); }
                }
                _ => r.violation("package_toml", "the output directory holds a package.toml that is valid TOML", format!("{input}; buildpack {id}"), "package.toml".into(), "missing or unreadable".into()),
            }
        }
        // unselected buildpacks: output directories untouched (absent when the package dir started empty)
        for (id, before) in before_unselected { if tree(&out_dir(&id)) != before { r.violation("unselected_untouched", "output directories of buildpacks that were not selected are not touched", format!("{input}; buildpack {id}"), format!("{before:?}"), format!("{:?}", tree(&out_dir(&id)))); } }
        if !out_dir("demo/other").exists() == false && !seeded { r.violation("unselected_untouched", "a non-libcnb buildpack is never packaged", input.clone(), "absent".into(), "present".into()); }
    } } } }
    r.samples.push("from meta/b: packages demo/r, demo/r2, demo/a, demo/b in dependency order; stdout = output directory of demo/b only".into());
    r
}
