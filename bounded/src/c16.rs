// C16 bounded stand-in (fault enumeration): libcnb-test scenario trees run in a child process (bin/c16bp) against recorder `pack` / `docker`
// executables that can be told to fail; Drop during unwinding and external processes are outside what a contract can state.
use crate::Report;
use std::collections::BTreeSet;
use std::path::Path;
use std::process::Command;

fn recorded(log: &Path) -> Vec<Vec<String>> {
    let raw = std::fs::read(log).unwrap_or_default();
    String::from_utf8_lossy(&raw).split("\n--END--\n").filter(|c| !c.trim().is_empty()).map(|c| { let mut v: Vec<String> = c.trim_start_matches('\n').split('\0').map(String::from).collect(); if v.last().map(String::is_empty) == Some(true) { v.pop(); } v }).collect()
}
fn opt_value<'a>(c: &'a [String], opt: &str) -> Option<&'a str> { c.iter().position(|a| a == opt).and_then(|i| c.get(i + 1)).map(String::as_str) }
// the kinds of external commands a scenario issues; the injected failure is "the n-th command of this kind exits 1"
fn kinds(c: &[String]) -> String { format!("{} {}", c[0], if c[0] == "docker" && c.get(1).map(String::as_str) == Some("volume") { "volume rm".to_string() } else if c[0] == "pack" && c.get(1).map(String::as_str) == Some("sbom") { "sbom download".to_string() } else { c.get(1).cloned().unwrap_or_default() }) }

struct Outcome { cmds: Vec<Vec<String>>, tmp_left: Vec<String>, code: Option<i32> }
fn run(root: &Path, id: usize, scenario: &str, expect_failure: bool, preproc: bool, fail: Option<(&str, usize)>, noise: bool, signal: bool, parallel: usize) -> Outcome {
    let dir = root.join(format!("s{id}")); std::fs::create_dir_all(dir.join("tmp")).unwrap();
    let log = dir.join("cmd.log");
    let bp = Path::new(env!("CARGO_MANIFEST_DIR")).join("target/release/c16bp");
    let mut c = Command::new(bp);
    c.env("PATH", format!("{}:{}", root.join("bin").display(), std::env::var("PATH").unwrap_or_default()))
        .env("VERIF_CMDLOG", &log).env("VERIF_SCENARIO", scenario).env("VERIF_APP", root.join("fixture")).env("CARGO_MANIFEST_DIR", root)
        .env("TMPDIR", dir.join("tmp")).env("VERIF_EXPECT", if expect_failure { "failure" } else { "success" }).env("VERIF_PREPROC", if preproc { "1" } else { "0" })
        .env("VERIF_FAIL", fail.map(|(k, n)| format!("{k}#{n}")).unwrap_or_default()).env("VERIF_NOISE", if noise { "1" } else { "" }).env("VERIF_FAIL_HOW", if signal { "signal" } else { "" })
        .stdout(std::process::Stdio::null()).stderr(std::process::Stdio::null());
    if parallel > 0 { c.env("VERIF_PARALLEL", parallel.to_string()); }
    let st = c.status().unwrap();
    let tmp_left: Vec<String> = std::fs::read_dir(dir.join("tmp")).unwrap().map(|e| e.unwrap().file_name().to_string_lossy().to_string()).collect();
    let out = Outcome { cmds: recorded(&log), tmp_left, code: st.code() };
    let _ = std::fs::remove_dir_all(&dir);
    out
}
// the executable form of C16 over one recorded run
fn judge(o: &Outcome) -> Vec<(&'static str, String)> {
    let mut bad = vec![];
    let builds: Vec<&Vec<String>> = o.cmds.iter().filter(|c| c[0] == "pack" && c.get(1).map(String::as_str) == Some("build")).collect();
    let mut created: BTreeSet<String> = BTreeSet::new();
    let (mut image, mut volumes): (Option<String>, Vec<String>) = (None, vec![]);
    if let Some(b) = builds.first() {
        image = b.iter().skip(2).find(|a| !a.starts_with("--") && b.iter().position(|x| x == *a).map(|i| !b[i - 1].starts_with("--") || ["--trust-builder", "--trust-extra-buildpacks"].contains(&b[i - 1].as_str())).unwrap_or(false)).cloned();
        for (i, a) in b.iter().enumerate() { if a == "--cache" { if let Some(v) = b.get(i + 1) { if let Some(n) = v.split(';').find_map(|kv| kv.strip_prefix("name=")) { volumes.push(n.to_string()); } } } }
    }
    if let Some(i) = &image { created.insert(i.clone()); } for v in &volumes { created.insert(v.clone()); }
    let detached: Vec<(usize, String)> = o.cmds.iter().enumerate().filter(|(_, c)| c[0] == "docker" && c.get(1).map(String::as_str) == Some("run") && c.iter().any(|a| a == "--detach")).filter_map(|(i, c)| opt_value(c, "--name").map(|n| (i, n.to_string()))).collect();
    for (_, n) in &detached { created.insert(n.clone()); }
    // every container started detached is force-removed (once, after it was started)
    for (i, n) in &detached {
        let rms: Vec<usize> = o.cmds.iter().enumerate().filter(|(_, c)| c[0] == "docker" && c.get(1).map(String::as_str) == Some("rm") && c.iter().any(|a| a == n) && c.iter().any(|a| a == "--force" || a == "-f")).map(|(j, _)| j).collect();
        if rms.len() != 1 || rms[0] < *i { bad.push(("container_removed", format!("container {n}: started at command {i}, force-removed at {rms:?}"))); }
    }
    // image and both cache volumes force-removed exactly once, after their last use
    if let Some(img) = &image {
        let last_use = o.cmds.iter().enumerate().filter(|(_, c)| !(c[0] == "docker" && matches!(c.get(1).map(String::as_str), Some("rmi") | Some("volume"))) && c.iter().any(|a| a == img || volumes.iter().any(|v| a.contains(v.as_str())))).map(|(j, _)| j).max().unwrap_or(0);
        let rmis: Vec<usize> = o.cmds.iter().enumerate().filter(|(_, c)| c[0] == "docker" && c.get(1).map(String::as_str) == Some("rmi") && c.iter().any(|a| a == img) && c.iter().any(|a| a == "--force" || a == "-f")).map(|(j, _)| j).collect();
        if rmis.len() != 1 || rmis[0] < last_use { bad.push(("image_removed_once", format!("image {img}: last used at command {last_use}, force-removed at {rmis:?}"))); }
        for v in &volumes {
            let vr: Vec<usize> = o.cmds.iter().enumerate().filter(|(_, c)| c[0] == "docker" && c.get(1).map(String::as_str) == Some("volume") && matches!(c.get(2).map(String::as_str), Some("rm") | Some("remove")) && c.iter().any(|a| a == v) && c.iter().any(|a| a == "--force" || a == "-f")).map(|(j, _)| j).collect();
            if vr.len() != 1 || vr[0] < last_use { bad.push(("volumes_removed_once", format!("cache volume {v}: last used at command {last_use}, force-removed at {vr:?}"))); }
        }
        if volumes.len() != 2 { bad.push(("volumes_removed_once", format!("expected a build and a launch cache volume in pack build, found {volumes:?}"))); }
    } else { bad.push(("image_removed_once", "no pack build recorded".to_string())); }
    // nothing is removed that the run did not create
    for c in &o.cmds {
        if c[0] != "docker" { continue; }
        let names: Vec<&String> = match c.get(1).map(String::as_str) { Some("rm") | Some("rmi") => c[2..].iter().filter(|a| !a.starts_with('-')).collect(), Some("volume") if matches!(c.get(2).map(String::as_str), Some("rm") | Some("remove")) => c[3..].iter().filter(|a| !a.starts_with('-')).collect(), _ => vec![] };
        for n in names { if !created.contains(n) { bad.push(("only_own_resources_removed", format!("{c:?} removes {n}, which this run did not create"))); } }
    }
    // no temporary app copy / buildpack directory / SBOM directory is left behind
    if !o.tmp_left.is_empty() { bad.push(("temp_dirs_removed", format!("left in TMPDIR: {:?}", o.tmp_left))); }
    bad
}

pub fn cleanup(thorough: bool) -> Report {
    let mut r = Report::new(
        "libcnb-test scenario trees run in a child process against recorder `pack` / `docker` on PATH: test-closure sequences over {run_shell_command, download_sbom_files, start_container[container-closure sequence over {logs_now, logs_wait, address_for_port, shell_exec, panic}], panic}, optionally ending in rebuild[...], x ONE injected event per run {none, a panic placed in the scenario, the n-th command of each kind the scenario issues (pack build, docker run, logs, port, exec, sbom download, rm, rmi, volume rm) exits 1, EVERY command of one kind exits 1, the n-th command of a kind is killed by a signal, every command prints bytes that are not valid UTF-8 on stdout and stderr} x expected pack result {success, failure} x app preprocessor {no, yes}: from the recorded argv log and TMPDIR afterwards - every container started detached is force-removed once after its start; image and both cache volumes are force-removed exactly once after their last use; nothing else is removed; TMPDIR is empty; plus three scenarios run by 8 threads of one process at once (names pairwise distinct, one removal each); non-trivial = runs with a panic or an injected failure",
        if thorough { "closure sequences up to length 2, container-closure sequences up to length 2" } else { "closure sequences up to length 2, container-closure sequences up to length 1" },
    );
    let t = tempfile::tempdir().unwrap(); let root = t.path().canonicalize().unwrap();
    std::fs::create_dir_all(root.join("bin")).unwrap(); std::fs::create_dir_all(root.join("fixture")).unwrap(); std::fs::write(root.join("fixture/Procfile"), "web: true").unwrap();
    for tool in ["pack", "docker"] {
        let p = root.join("bin").join(tool);
        // records argv; exits 1 when this is the n-th command of the kind named in VERIF_FAIL ("docker run#2"); `docker port` prints an address
        std::fs::write(&p, "#!/bin/sh\ntool=$(basename \"$0\")\nkind=\"$tool $1\"\n[ \"$1\" = volume ] && kind=\"$tool volume rm\"\n[ \"$tool $1\" = \"pack sbom\" ] && kind=\"pack sbom download\"\n# one record per command, appended under a lock: commands of concurrent builds must not interleave inside the log\n( flock 9; { printf '%s\\0' \"$tool\" \"$@\"; printf '\\n--END--\\n'; } >> \"$VERIF_CMDLOG\"; printf '%s\\n' \"$kind\" >> \"$VERIF_CMDLOG.kinds\" ) 9>>\"$VERIF_CMDLOG.lock\"\nif [ -n \"$VERIF_NOISE\" ]; then printf 'caf\\351 \\377\\376\\n' >&2; [ \"$kind\" = \"docker port\" ] || printf 'caf\\351 \\377\\376\\n'; fi\nif [ -n \"$VERIF_FAIL\" ]; then want=${VERIF_FAIL%#*}; nth=${VERIF_FAIL##*#}; if [ \"$kind\" = \"$want\" ] && { [ \"$nth\" = 0 ] || [ \"$(grep -c -x -F \"$want\" \"$VERIF_CMDLOG.kinds\")\" = \"$nth\" ]; }; then echo injected failure >&2; [ \"$VERIF_FAIL_HOW\" = signal ] && kill -KILL $$; exit 1; fi; fi\n[ \"$kind\" = \"docker port\" ] && echo 127.0.0.1:49153\nexit 0\n").unwrap();
        use std::os::unix::fs::PermissionsExt; std::fs::set_permissions(&p, std::fs::Permissions::from_mode(0o755)).unwrap();
    }
    if !Path::new(env!("CARGO_MANIFEST_DIR")).join("target/release/c16bp").exists() { r.violation("harness", "c16bp binary missing", String::new(), "built".into(), "absent".into()); return r; }
    // ---- scenario enumeration
    let cops: Vec<String> = { let a = ["l", "w", "p", "e", "!"]; let mut v = vec![String::new()]; for x in a { v.push(x.to_string()); } if thorough { for x in a { for y in a { if x != "!" { v.push(format!("{x},{y}")); } } } } v };
    let mut ops: Vec<String> = vec!["s".into(), "d".into(), "!".into()];
    for c in &cops { ops.push(format!("c[{c}]")); }
    let rebuilds: Vec<String> = ["", "s", "c[l]", "c[!]", "!"].iter().map(|x| format!("r[{x}]")).collect();
    let mut scenarios: Vec<String> = vec![String::new()];
    for a in &ops { scenarios.push(a.clone()); }
    for a in &ops { if a == "!" { continue; } for b in &ops { scenarios.push(format!("{a},{b}")); } }
    for rb in &rebuilds { scenarios.push(rb.clone()); for a in &ops { if a != "!" { scenarios.push(format!("{a},{rb}")); } } }
    // ---- jobs: (scenario, expect_failure, preproc, fault)
    let mut jobs: Vec<(String, bool, bool, Option<(String, usize)>, bool, bool)> = vec![];   // (scenario, expect failure, preprocessor, fault, noisy output, fault = killed by a signal)
    for (si, s) in scenarios.iter().enumerate() {
        // reference run without fault tells which command kinds occur (and how often)
        let o = run(&root, si, s, false, false, None, false, false, 0);
        let mut counts: std::collections::BTreeMap<String, usize> = Default::default();
        for c in &o.cmds { *counts.entry(kinds(c)).or_insert(0) += 1; }
        jobs.push((s.clone(), false, si % 3 == 0, None, false, false));
        jobs.push((s.clone(), false, false, None, true, false));                                  // every command prints bytes that are not UTF-8
        jobs.push((s.clone(), true, false, Some(("pack build".into(), 1)), si % 2 == 1, false));       // pack fails as expected
        jobs.push((s.clone(), true, false, None, false, false));                                   // pack succeeds although failure was expected
        // ONE injected event per run: a scenario that panics on its own gets no additional command failure
        // (a closure panic PLUS a failing `docker rm` makes ContainerContext::drop panic while unwinding, which aborts the process - two faults, outside the quantifier; DESIGN.md 9.3)
        if s.contains('!') { continue; }
        for (k, n) in &counts { for i in 1..=*n { if thorough || i == 1 || k == "pack build" { jobs.push((s.clone(), false, si % 2 == 0 && k == "pack build", Some((k.clone(), i)), false, false)); } } }
        // the command is KILLED BY A SIGNAL (no exit code) instead of exiting 1
        for k in counts.keys() { jobs.push((s.clone(), false, false, Some((k.clone(), 1)), false, true)); }
        // ONE persistent cause: every command of a kind fails (a dead container fails every `docker logs`, also one issued during cleanup)
        for k in counts.keys() { if k != "pack build" { jobs.push((s.clone(), false, false, Some((k.clone(), 0)), false, false)); } }
    }
    let base = scenarios.len();
    let results: Vec<(usize, Outcome)> = {
        let jobs = &jobs; let root = &root;
        let next = std::sync::atomic::AtomicUsize::new(0); let out = std::sync::Mutex::new(vec![]);
        std::thread::scope(|sc| { for _ in 0..14 { sc.spawn(|| loop {
            let i = next.fetch_add(1, std::sync::atomic::Ordering::SeqCst); if i >= jobs.len() { break; }
            let (s, ef, pp, f, nz, sg) = &jobs[i];
            let o = run(root, base + i, s, *ef, *pp, f.as_ref().map(|(k, n)| (k.as_str(), *n)), *nz, *sg, 0);
            out.lock().unwrap().push((i, o));
        }); } });
        let mut v = out.into_inner().unwrap(); v.sort_by_key(|x| x.0); v
    };
    for (i, o) in results {
        let (s, ef, pp, f, nz, sg) = &jobs[i];
        r.evaluations += 1; if s.contains('!') || f.is_some() || *ef { r.nontrivial += 1; }
        for (case, what) in judge(&o) {
            r.violation(case, "Docker resources / temporary directories after the scenario ended", format!("scenario {s:?} (s shell, d sbom, c[..] container with l logs / w logs_wait / p port / e exec, r[..] rebuild, ! panic), expected pack result {}, preprocessor {pp}, injected failure {f:?} (n-th command of the kind exits 1; 0 = every one), commands print non-UTF-8 bytes: {nz}, failing command killed by a signal: {sg}; exit code {:?}; commands: {:?}", if *ef { "failure" } else { "success" }, o.code, o.cmds.iter().map(|c| c.join(" ")).collect::<Vec<_>>()), "every started container, the image and both cache volumes force-removed exactly once after last use; nothing else removed; TMPDIR empty".into(), what);
        }
    }
    // ---- several builds at the same time in ONE process (threads, as `cargo test` runs tests): every build has its own image, volumes and containers
    for (pi, s) in ["c[l]", "s,c[]", ""].iter().enumerate() {
        let n = 8usize;
        let o = run(&root, base + jobs.len() + pi, s, false, false, None, false, false, n);
        r.evaluations += 1; r.nontrivial += 1;
        let input = format!("scenario {s:?} run by {n} threads of one process at the same time; exit code {:?}; commands: {:?}", o.code, o.cmds.iter().map(|c| c.join(" ")).collect::<Vec<_>>());
        let mut bad: Vec<String> = vec![];
        let builds: Vec<&Vec<String>> = o.cmds.iter().filter(|c| c[0] == "pack" && c.get(1).map(String::as_str) == Some("build")).collect();
        if builds.len() != n { bad.push(format!("{} pack build commands for {n} builds", builds.len())); }
        let mut names: Vec<String> = vec![];
        for b in &builds {
            if let Some(img) = b.iter().skip(2).find(|a| a.starts_with("libcnbtest_")) { names.push(img.clone()); }
            for (i, a) in b.iter().enumerate() { if a == "--cache" { if let Some(v) = b.get(i + 1) { if let Some(x) = v.split(';').find_map(|kv| kv.strip_prefix("name=")) { names.push(x.to_string()); } } } }
        }
        for c in &o.cmds { if c[0] == "docker" && c.get(1).map(String::as_str) == Some("run") && c.iter().any(|a| a == "--detach") { if let Some(x) = opt_value(c, "--name") { names.push(x.to_string()); } } }
        let distinct: BTreeSet<&String> = names.iter().collect();
        if distinct.len() != names.len() { bad.push(format!("resource names are shared between concurrent builds: {} names, {} distinct", names.len(), distinct.len())); }
        for nm in &distinct {
            let removals = o.cmds.iter().filter(|c| c[0] == "docker" && matches!(c.get(1).map(String::as_str), Some("rm") | Some("rmi") | Some("volume")) && c.iter().any(|a| a == *nm)).count();
            if removals != 1 { bad.push(format!("{nm} removed {removals} times")); }
        }
        if !o.tmp_left.is_empty() { bad.push(format!("left in TMPDIR: {:?}", o.tmp_left)); }
        if !bad.is_empty() { r.violation("parallel_builds", "concurrent builds in one process: each has its own image, cache volumes and containers, each removed exactly once", input, "pairwise distinct names, one removal each, TMPDIR empty".into(), bad.join("; ")); }
    }
    r.samples.push("c[p,!] with `docker port` failing: docker run --detach --name N .. ; docker port N ; docker logs N ; docker rm --force N ; docker rmi --force I ; docker volume rm --force B L".into());
    r
}
