// c16bp — runs ONE libcnb-test scenario described by VERIF_SCENARIO against whatever `pack` / `docker` are first on PATH.
// grammar:  ops   := op (',' op)*            (test-closure level)
//           op    := 's' run_shell_command | 'd' download_sbom_files | '!' panic | 'c[' cops ']' start_container | 'r[' ops ']' rebuild (must be last)
//           cops  := (cop (',' cop)*)?       (container-closure level)
//           cop   := 'l' logs_now | 'w' logs_wait | 'p' address_for_port | 'e' shell_exec | '!' panic
use libcnb_test::{BuildConfig, BuildpackReference, ContainerConfig, ContainerContext, PackResult, TestContext, TestRunner};

#[derive(Debug, Clone)]
enum Op { Shell, Sbom, Panic, Container(Vec<char>), Rebuild(Vec<Op>) }

fn parse_ops(s: &[u8], i: &mut usize) -> Vec<Op> {
    let mut out = vec![];
    while *i < s.len() && s[*i] != b']' {
        match s[*i] {
            b',' => { *i += 1; }
            b's' => { out.push(Op::Shell); *i += 1; }
            b'd' => { out.push(Op::Sbom); *i += 1; }
            b'!' => { out.push(Op::Panic); *i += 1; }
            b'c' => { *i += 2; let mut inner = vec![]; while s[*i] != b']' { if s[*i] != b',' { inner.push(s[*i] as char); } *i += 1; } *i += 1; out.push(Op::Container(inner)); }
            b'r' => { *i += 2; let inner = parse_ops(s, i); *i += 1; out.push(Op::Rebuild(inner)); }
            x => panic!("bad scenario byte {x}"),
        }
    }
    out
}
fn config() -> BuildConfig {
    let mut c = BuildConfig::new("heroku/builder:24", std::env::var("VERIF_APP").unwrap());
    c.buildpacks(vec![BuildpackReference::Other("x/y".to_string())]);
    if std::env::var("VERIF_EXPECT").as_deref() == Ok("failure") { c.expected_pack_result(PackResult::Failure); }
    if std::env::var("VERIF_PREPROC").as_deref() == Ok("1") { c.app_dir_preprocessor(|p| std::fs::write(p.join("extra"), "x").unwrap()); }
    c
}
fn run_container(c: &ContainerContext, cops: &[char]) {
    for op in cops {
        match op {
            'l' => { let _ = c.logs_now(); }
            'w' => { let _ = c.logs_wait(); }
            'p' => { let _ = c.address_for_port(8080); }
            'e' => { let _ = c.shell_exec("true"); }
            '!' => panic!("scenario panic in container closure"),
            x => panic!("bad container op {x}"),
        }
    }
}
fn run_ops(ctx: TestContext, ops: &[Op]) {
    let mut ctx = Some(ctx);
    for op in ops {
        match op {
            Op::Shell => { let _ = ctx.as_ref().unwrap().run_shell_command("true"); }
            Op::Sbom => { ctx.as_ref().unwrap().download_sbom_files(|_f| ()); }
            Op::Panic => panic!("scenario panic in test closure"),
            Op::Container(cops) => { let mut cc = ContainerConfig::new(); cc.expose_port(8080); ctx.as_ref().unwrap().start_container(&cc, |c| run_container(&c, cops)); }
            Op::Rebuild(inner) => { let inner = inner.clone(); ctx.take().unwrap().rebuild(config(), move |ctx2| run_ops(ctx2, &inner)); }
        }
    }
}
fn main() {
    let s = std::env::var("VERIF_SCENARIO").unwrap();
    let ops = parse_ops(s.as_bytes(), &mut 0);
    // VERIF_PARALLEL=N: the scenario runs in N threads of this process at the same time (what `cargo test` does with several tests)
    if let Some(n) = std::env::var("VERIF_PARALLEL").ok().and_then(|n| n.parse::<usize>().ok()) {
        let barrier = std::sync::Arc::new(std::sync::Barrier::new(n));
        let hs: Vec<_> = (0..n).map(|_| { let ops = ops.clone(); let b = barrier.clone(); std::thread::spawn(move || { b.wait(); TestRunner::default().build(config(), move |ctx| run_ops(ctx, &ops)); }) }).collect();
        let failed = hs.into_iter().map(|h| h.join().is_err()).filter(|x| *x).count();
        std::process::exit(if failed == 0 { 0 } else { 101 });
    }
    TestRunner::default().build(config(), move |ctx| run_ops(ctx, &ops));
}
