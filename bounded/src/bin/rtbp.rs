// rtbp — the test buildpack executable of the C05/C06 witness harness: the REAL libcnb_runtime around a buildpack whose
// behaviour is chosen by environment variables (VERIF_*), and which records every call-back and the context it was handed.
//   VERIF_LOG   file to append "detect" / "build" / "on_error" lines to
//   VERIF_DUMP  file the context handed to detect/build is written to (one "key=value" line per field)
//   VERIF_DO    detect: pass | pass_plan | fail | error      build: error | pass
//   VERIF_PARTS build pass: comma list of launch,store,b0,b1,b2,l0,l1,l2,b0x (b0x = a second cdx build SBOM given later)
use libcnb::build::{BuildContext, BuildResult, BuildResultBuilder};
use libcnb::data::build_plan::BuildPlanBuilder;
use libcnb::data::launch::{LaunchBuilder, ProcessBuilder};
use libcnb::data::process_type;
use libcnb::data::sbom::SbomFormat;
use libcnb::data::store::Store;
use libcnb::detect::{DetectContext, DetectResult, DetectResultBuilder};
use libcnb::generic::{GenericMetadata, GenericPlatform};
use libcnb::sbom::Sbom;
use libcnb::{Buildpack, Error, Platform, Target};
use std::fmt::Write as _;
use std::io::Write as _;

#[derive(Debug)]
struct TErr;
struct TB;

fn log(s: &str) {
    if let Ok(p) = std::env::var("VERIF_LOG") {
        let mut f = std::fs::OpenOptions::new().create(true).append(true).open(p).unwrap();
        writeln!(f, "{s}").unwrap();
    }
}
fn hex(b: &[u8]) -> String { b.iter().map(|x| format!("{x:02x}")).collect() }
fn common(out: &mut String, app: &std::path::Path, bp: &std::path::Path, t: &Target, p: &GenericPlatform, d: &impl std::fmt::Debug) {
    writeln!(out, "app_dir={}", hex(app.as_os_str().as_encoded_bytes())).unwrap();
    writeln!(out, "buildpack_dir={}", hex(bp.as_os_str().as_encoded_bytes())).unwrap();
    writeln!(out, "target={}|{}|{}|{}|{}", t.os, t.arch, t.arch_variant.clone().map_or("<none>".to_string(), |v| format!("some:{v}")), t.distro_name, t.distro_version).unwrap();
    let mut vars: Vec<(String, String)> = p.env().iter().map(|(k, v)| (hex(k.as_encoded_bytes()), hex(v.as_encoded_bytes()))).collect();
    vars.sort();
    for (k, v) in vars { writeln!(out, "platform_env={k}:{v}").unwrap(); }
    writeln!(out, "descriptor={}", hex(format!("{d:?}").as_bytes())).unwrap();
}
fn dump(s: String) { if let Ok(p) = std::env::var("VERIF_DUMP") { std::fs::write(p, s).unwrap(); } }

impl Buildpack for TB {
    type Platform = GenericPlatform;
    type Metadata = GenericMetadata;
    type Error = TErr;
    fn detect(&self, c: DetectContext<Self>) -> libcnb::Result<DetectResult, TErr> {
        log("detect");
        let mut s = String::new();
        common(&mut s, &c.app_dir, &c.buildpack_dir, &c.target, &c.platform, &c.buildpack_descriptor);
        dump(s);
        match std::env::var("VERIF_DO").unwrap_or_default().as_str() {
            "pass" => DetectResultBuilder::pass().build(),
            "pass_plan" => DetectResultBuilder::pass().build_plan(BuildPlanBuilder::new().provides("witness").requires("witness").build()).build(),
            // C20: several provides / requires per alternative and several alternatives, so an order leak (hash iteration) shows between two processes
            "pass_richplan" => {
                let mut b = BuildPlanBuilder::new();
                for (g, names) in [vec!["jdk", "maven", "gradle", "node", "ruby", "python", "go", "rust"], vec!["jre", "jdk", "yarn", "npm", "pnpm", "bun"], vec!["php", "composer", "nginx", "apache", "caddy"]].iter().enumerate() {
                    if g > 0 { b = b.or(); }
                    for n in names { b = b.provides(*n); }
                    for n in names.iter().rev() { b = b.requires(*n); }
                }
                DetectResultBuilder::pass().build_plan(b.build()).build()
            }
            // a plan that consists of alternatives only (empty head) and the EMPTY plan: both are written like any other plan
            "pass_orplan" => DetectResultBuilder::pass().build_plan(BuildPlanBuilder::new().or().provides("jdk").requires("jdk").build()).build(),
            "pass_emptyplan" => DetectResultBuilder::pass().build_plan(libcnb::data::build_plan::BuildPlan::new()).build(),
            "fail" => DetectResultBuilder::fail().build(),
            _ => Err(Error::BuildpackError(TErr)),
        }
    }
    fn build(&self, c: BuildContext<Self>) -> libcnb::Result<BuildResult, TErr> {
        log("build");
        let mut s = String::new();
        common(&mut s, &c.app_dir, &c.buildpack_dir, &c.target, &c.platform, &c.buildpack_descriptor);
        writeln!(s, "layers_dir={}", hex(c.layers_dir.as_os_str().as_encoded_bytes())).unwrap();
        writeln!(s, "plan={}", hex(format!("{:?}", c.buildpack_plan).as_bytes())).unwrap();
        writeln!(s, "store={}", hex(format!("{:?}", c.store).as_bytes())).unwrap();
        dump(s);
        if std::env::var("VERIF_DO").unwrap_or_default() != "pass" { return Err(Error::BuildpackError(TErr)); }
        if std::env::var("VERIF_LAYERS").is_ok() {
            // C20: layer work whose on-disk result must not depend on the process (hash seeds, iteration order, time)
            use libcnb::layer::{CachedLayerDefinition, InvalidMetadataAction, RestoredLayerAction, UncachedLayerDefinition};
            use libcnb::layer_env::{LayerEnv, ModificationBehavior as MB, Scope};
            let alpha = c.uncached_layer(libcnb::data::layer_name!("alpha"), UncachedLayerDefinition { build: true, launch: true })?;
            let mut env = LayerEnv::new();
            for i in 0..24 {
                let scope = match i % 4 { 0 => Scope::All, 1 => Scope::Build, 2 => Scope::Launch, _ => Scope::Process(["web", "worker", "console"][i % 3].to_string()) };
                let mb = match i % 5 { 0 => MB::Append, 1 => MB::Default, 2 => MB::Override, 3 => MB::Prepend, _ => MB::Delimiter };
                env.insert(scope, mb, format!("VAR_{i}"), format!("value-{i}\n"));
            }
            alpha.write_env(env)?;
            alpha.write_sboms(&[Sbom::from_bytes(SbomFormat::SyftJson, b"{\"a\":1}".to_vec()), Sbom::from_bytes(SbomFormat::CycloneDxJson, b"{}".to_vec())])?;
            let me = c.buildpack_dir.join("buildpack.toml"); // any small existing file serves as the program to copy
            alpha.write_exec_d_programs((0..12).map(|i| (format!("prog-{i}"), me.clone())).collect::<std::collections::HashMap<_, _>>())?;
            std::fs::write(alpha.path().join("payload.bin"), b"payload").unwrap();
            // exec.d names with a directory component and distinct sources: whatever the outcome (today: an error, nothing copied),
            // it must be the same in every process
            let gamma = c.uncached_layer(libcnb::data::layer_name!("gamma"), UncachedLayerDefinition { build: false, launch: true })?;
            let mut progs = std::collections::HashMap::new();
            for n in ["web", "worker", "clock", "console"] { let src = alpha.path().join(format!("src-{n}")); std::fs::write(&src, n).unwrap(); progs.insert(format!("{n}/env"), src); }
            let res = gamma.write_exec_d_programs(progs);
            std::fs::write(gamma.path().join("result.txt"), format!("ok={}", res.is_ok())).unwrap();
            let beta = c.cached_layer(libcnb::data::layer_name!("beta"), CachedLayerDefinition { build: false, launch: true,
                invalid_metadata_action: &|_| InvalidMetadataAction::DeleteLayer, restored_layer_action: &|_: &GenericMetadata, _| RestoredLayerAction::KeepLayer })?;
            let mut t = toml::Table::new();
            for i in 0..16 { t.insert(format!("key_{}", (i * 7) % 16), toml::Value::String(format!("v{i}"))); }
            beta.write_metadata(t)?;
        }
        if std::env::var("VERIF_LAYERS").as_deref() == Ok("2") {
            // C20: a restored layer (seeded by the harness: seven process env dirs, one of them empty) whose environment is read and written back
            use libcnb::layer::{CachedLayerDefinition, InvalidMetadataAction, RestoredLayerAction};
            let delta = c.cached_layer(libcnb::data::layer_name!("delta"), CachedLayerDefinition { build: false, launch: true,
                invalid_metadata_action: &|_| InvalidMetadataAction::DeleteLayer, restored_layer_action: &|_: &GenericMetadata, _| RestoredLayerAction::KeepLayer })?;
            let env = delta.read_env()?;
            delta.write_env(env)?;
        }
        let parts = std::env::var("VERIF_PARTS").unwrap_or_default();
        let has = |x: &str| parts.split(',').any(|p| p == x);
        let fmts = [SbomFormat::CycloneDxJson, SbomFormat::SpdxJson, SbomFormat::SyftJson];
        let mut b = BuildResultBuilder::new();
        if has("launch") { b = b.launch(LaunchBuilder::new().process(ProcessBuilder::new(process_type!("web"), ["witness"]).build()).build()); }
        if has("richlaunch") {
            // C20: enough labels / processes / slices that any order leak (hash-map iteration) shows between two processes
            let mut lb = LaunchBuilder::new();
            for (i, t) in ["web", "worker", "console", "release"].iter().enumerate() { lb.process(ProcessBuilder::new(t.parse().unwrap(), [format!("cmd-{i}")]).arg(format!("arg-{i}")).default(i == 0).build()); }
            for i in 0..8 { lb.label(libcnb::data::launch::Label { key: format!("org.example.label-{}", (i * 5) % 8), value: format!("value-{i}") }); }
            for i in 0..3 { lb.slice(libcnb::data::launch::Slice { path_globs: vec![format!("dir-{i}/**"), format!("*.{i}")] }); }
            // the plural builder methods, several items each
            lb.labels((0..6).map(|i| libcnb::data::launch::Label { key: format!("bulk.label-{}", (i * 5) % 6), value: format!("bulk-{i}") }));
            lb.slices((0..4).map(|i| libcnb::data::launch::Slice { path_globs: vec![format!("bulk-{i}/**")] }));
            lb.processes(["clock", "scheduler", "migrate"].iter().enumerate().map(|(i, t)| ProcessBuilder::new(t.parse().unwrap(), [format!("bulk-cmd-{i}")]).args([format!("a{i}"), format!("b{i}")]).build()));
            b = b.launch(lb.build());
        }
        if has("richlaunch2") {
            // several process types flagged default (the lifecycle would reject it; libcnb writes what it was given, the same in every process)
            let mut lb = LaunchBuilder::new();
            for (i, t) in ["web", "worker", "console", "release", "clock"].iter().enumerate() { lb.process(ProcessBuilder::new(t.parse().unwrap(), [format!("cmd-{i}")]).default(i != 1).build()); }
            b = b.launch(lb.build());
        }
        if has("store") { let mut t = toml::Table::new(); t.insert("witness".into(), toml::Value::String("stored".into())); b = b.store(Store { metadata: t }); }
        for (i, f) in fmts.iter().enumerate() {
            if has(&format!("b{i}")) { b = b.build_sbom(Sbom::from_bytes(f.clone(), format!("build-{i}").into_bytes())); }
            if has(&format!("l{i}")) { b = b.launch_sbom(Sbom::from_bytes(f.clone(), format!("launch-{i}").into_bytes())); }
        }
        if has("b0x") { b = b.build_sbom(Sbom::from_bytes(SbomFormat::CycloneDxJson, b"build-0-later".to_vec())); }
        b.build()
    }
    fn on_error(&self, _e: Error<TErr>) { log("on_error"); }
}
fn main() {
    // exec.d mode (C07): write one program output through the real write_exec_d_program_output (fd 3)
    if let Ok(k) = std::env::var("VERIF_EXECD") {
        let key: libcnb::data::exec_d::ExecDProgramOutputKey = k.parse().unwrap();
        let other: libcnb::data::exec_d::ExecDProgramOutputKey = "OTHER".parse().unwrap();
        let map = std::collections::HashMap::from([(key, std::env::var("VERIF_EXECD_VALUE").unwrap()), (other, std::env::var("VERIF_EXECD_VALUE2").unwrap())]);
        // both public ways in: the constructor, and the `From` conversion that write_exec_d_program_output accepts directly
        if std::env::var("VERIF_EXECD_VIA").as_deref() == Ok("from") { libcnb::exec_d::write_exec_d_program_output(map); } else { libcnb::exec_d::write_exec_d_program_output(libcnb::data::exec_d::ExecDProgramOutput::new(map)); }
        return;
    }
    libcnb::libcnb_runtime(&TB);
}
