// C04 witness search: LayerEnv::apply against an executable reference of the CNB rules (the postcondition of
// LayerEnvDelta::apply / LayerEnv::apply proved in units/layer_env_apply.vrs).
use crate::Report;
use libcnb::Env;
use libcnb::layer_env::{LayerEnv, ModificationBehavior as MB, Scope};
use std::collections::BTreeMap;
use std::ffi::OsString;

type Delta = BTreeMap<(u8, String), String>; // behaviour index, name -> value
fn ref_apply(d: &Delta, env: &BTreeMap<String, String>, names: &[&str]) -> BTreeMap<String, String> {
    let mut out = env.clone();
    for n in names {
        let delim = d.get(&(2, n.to_string())).cloned().unwrap_or_default();
        let mut v: Option<String> = env.get(*n).cloned();
        if let Some(x) = d.get(&(0, n.to_string())) { v = Some(match &v { Some(p) if !p.is_empty() => format!("{p}{delim}{x}"), _ => x.clone() }); }
        if let Some(x) = d.get(&(1, n.to_string())) { if v.is_none() { v = Some(x.clone()); } }
        if let Some(x) = d.get(&(3, n.to_string())) { v = Some(x.clone()); }
        if let Some(x) = d.get(&(4, n.to_string())) { v = Some(match &v { Some(p) if !p.is_empty() => format!("{x}{delim}{p}"), _ => x.clone() }); }
        match v { Some(v) => { out.insert(n.to_string(), v); } None => { out.remove(*n); } }
    }
    out
}
fn mb(i: u8) -> MB { match i { 0 => MB::Append, 1 => MB::Default, 2 => MB::Delimiter, 3 => MB::Override, _ => MB::Prepend } }
fn scope(i: u8) -> Scope { match i { 0 => Scope::All, 1 => Scope::Build, 2 => Scope::Launch, _ => Scope::Process("web".into()) } }

pub fn apply(thorough: bool) -> Report {
    let mut r = Report::new(
        "witness search: every layer env with up to K entries drawn from 2 names x 5 behaviours x 4 scopes x values {\"\", \"v\", \":\"}, every query scope incl. an unknown process, start envs {unset, \"\", \"x\"} per name; real LayerEnv::apply vs the reference CNB composition (all, then scope); both insertion orders; non-trivial = cases where the result differs from the start env",
        if thorough { "K = 3 entries" } else { "K = 2 entries" },
    );
    let names = ["A", "CLASSPATH"];   // a name that LOOKS like a path list gets no special delimiter: the delimiter is the delta's `delim` entry or empty
    let vals = ["", "v", ":"];
    let mut entries: Vec<(u8, u8, usize, usize)> = vec![]; // scope, behaviour, name, value
    for s in 0..4u8 { for b in 0..5u8 { for n in 0..2 { for v in 0..3 { entries.push((s, b, n, v)); } } } }
    let k = if thorough { 3 } else { 2 };
    let starts: Vec<Vec<Option<&str>>> = { let o = [None, Some(""), Some("x")]; let mut v = vec![]; for a in o { for b in o { v.push(vec![a, b]); } } v };
    let queries: Vec<Scope> = vec![Scope::All, Scope::Build, Scope::Launch, Scope::Process("web".into()), Scope::Process("other".into())];
    let mut idx = vec![0usize; k];
    let total = entries.len();
    'outer: loop {
        // strictly increasing index tuples (sets of entries); also the empty/one-entry prefixes via idx equalities skipped
        let ok = idx.windows(2).all(|w| w[0] < w[1]);
        if ok {
            let chosen: Vec<_> = idx.iter().map(|&i| entries[i]).collect();
            for order in 0..2 {
                let mut le = LayerEnv::new();
                let it: Vec<_> = if order == 0 { chosen.clone() } else { chosen.iter().rev().cloned().collect() };
                // later insert of the same key wins; to keep the reference order-free only use distinct keys
                let mut keys = std::collections::BTreeSet::new();
                let distinct = it.iter().all(|e| keys.insert((e.0, e.1, e.2)));
                if !distinct { continue; }
                for e in &it { le.insert(scope(e.0), mb(e.1), names[e.2], vals[e.3]); }
                for q in &queries {
                    for st in &starts {
                        r.evaluations += 1;
                        let mut env = Env::new(); let mut renv = BTreeMap::new();
                        for (i, v) in st.iter().enumerate() { if let Some(v) = v { env.insert(names[i], *v); renv.insert(names[i].to_string(), v.to_string()); } }
                        let got_env = le.apply(q.clone(), &env);
                        let mut got = BTreeMap::new();
                        for n in names { if let Some(v) = got_env.get(n) { got.insert(n.to_string(), v.to_string_lossy().to_string()); } }
                        // reference: `all` delta, then the scope's own delta
                        let sel = |sc: u8| -> Delta { chosen.iter().filter(|e| e.0 == sc).map(|e| ((e.1, names[e.2].to_string()), vals[e.3].to_string())).collect() };
                        let mut exp = ref_apply(&sel(0), &renv, &names);
                        match q { Scope::Build => exp = ref_apply(&sel(1), &exp, &names), Scope::Launch => exp = ref_apply(&sel(2), &exp, &names),
                                  Scope::Process(p) if p == "web" => exp = ref_apply(&sel(3), &exp, &names), _ => {} }
                        if exp != renv { r.nontrivial += 1; }
                        if got != exp {
                            r.violation("layer_env_apply", "LayerEnv::apply disagrees with the CNB rules", format!("entries(scope,behaviour,name,value)={chosen:?} query={q:?} start={st:?}"), format!("{exp:?}"), format!("{got:?}"));
                        }
                        // the input is not modified
                        for (i, v) in st.iter().enumerate() { if env.get(names[i]).map(|x| x.to_string_lossy().to_string()) != v.map(|x| x.to_string()) { r.violation("input_modified", "apply modified its input", format!("{chosen:?}"), format!("{st:?}"), "changed".into()); } }
                        let _ = OsString::new();
                    }
                }
            }
        }
        // next tuple
        let mut p = k;
        loop {
            if p == 0 { break 'outer; }
            p -= 1;
            idx[p] += 1;
            if idx[p] < total { for q in p + 1..k { idx[q] = idx[p]; } break; }
        }
    }
    r.samples.push("Override A=\"\" (all) + Default A=v (build), query Build, start {} -> A=\"\"".into());
    r
}
