// C02 witness search: sequences of trait-API handle_layer calls with scripted call-backs and simulated lifecycle restores, on a real tempdir.
#![allow(deprecated)]
use crate::Report;
use crate::c11::{ctx, snapshot, B};
use libcnb::build::BuildContext;
use libcnb::data::layer_content_metadata::{LayerContentMetadata, LayerTypes};
use libcnb::data::layer_name;
use libcnb::data::sbom::SbomFormat;
use libcnb::generic::{GenericError, GenericMetadata};
use libcnb::layer::{ExistingLayerStrategy, Layer, LayerData, LayerResult, LayerResultBuilder, MetadataMigration};
use libcnb::layer_env::{LayerEnv, ModificationBehavior as MB, Scope};
use libcnb::sbom::Sbom;
use serde::{Deserialize, Serialize};
use std::cell::RefCell;
use std::collections::BTreeMap;
use std::fs;
use std::path::{Path, PathBuf};
use std::rc::Rc;

#[derive(Serialize, Deserialize, Debug, Clone, PartialEq)]
struct Meta { version: String, checksum: String }

#[derive(Clone, Copy, Debug, PartialEq)] enum Strat { Keep, Update, Recreate }
#[derive(Clone, Copy, Debug, PartialEq)] enum Mig { Recreate, Replace }
#[derive(Clone, Copy, Debug, PartialEq)] enum Pre { Nothing, CacheRestore, LaunchOnlyRestore, Vanish, Corrupt, ManyProcessDirs }
#[derive(Clone, Copy, Debug)] struct Step { pre: Pre, strat: Strat, mig: Mig, payload: u8, types: u8 }

struct TL { step: Step, src: PathBuf, log: Rc<RefCell<Vec<String>>> }
fn payload_env(p: u8) -> LayerEnv {
    let mut e = LayerEnv::new();
    e.insert(Scope::All, MB::Override, "ALL", format!("all-{p}"));
    e.insert(Scope::All, MB::Default, "spring.profiles.active", "prod"); e.insert(Scope::All, MB::Default, "spring.profiles", "x");
    e.insert(Scope::Build, MB::Append, "BUILD", format!("build-{p}\n"));
    e.insert(Scope::Build, MB::Delimiter, "BUILD", ":");
    if p == 1 { e.insert(Scope::Launch, MB::Default, "LAUNCH", "launch"); e.insert(Scope::Process("web".into()), MB::Prepend, "WEB", "web-1"); }
    else { e.insert(Scope::Process("worker".into()), MB::Override, "WORKER", "worker-0"); }
    e
}
fn payload_result(p: u8, src: &Path) -> LayerResult<Meta> {
    // payload 2: a bare result - no environment, no exec.d programs, no SBOMs ("the layer then has none")
    if p == 2 { return LayerResultBuilder::new(Meta { version: format!("v{p}"), checksum: format!("c{p}") }).build_unwrapped(); }
    let mut b = LayerResultBuilder::new(Meta { version: format!("v{p}"), checksum: format!("c{p}") }).env(payload_env(p));
    if p == 1 { b = b.exec_d_program("one", src.join("prog-a")).exec_d_program("two", src.join("prog-b")).sbom(Sbom::from_bytes(SbomFormat::CycloneDxJson, b"cdx-1".to_vec())); }
    else { b = b.exec_d_program("zero", src.join("prog-b")).sbom(Sbom::from_bytes(SbomFormat::SpdxJson, b"spdx-0".to_vec())).sbom(Sbom::from_bytes(SbomFormat::SyftJson, b"syft-0".to_vec())); }
    b.build_unwrapped()
}
fn types_of(t: u8) -> LayerTypes { LayerTypes { launch: t & 1 != 0, build: t & 2 != 0, cache: true } }
impl Layer for TL {
    type Buildpack = B;
    type Metadata = Meta;
    fn types(&self) -> LayerTypes { types_of(self.step.types) }
    fn create(&mut self, _c: &BuildContext<B>, layer_path: &Path) -> Result<LayerResult<Meta>, GenericError> {
        self.log.borrow_mut().push(format!("create(empty={})", fs::read_dir(layer_path).map(|mut d| d.next().is_none()).unwrap_or(false)));
        fs::write(layer_path.join(format!("created-{}", self.step.payload)), b"payload").unwrap();
        fs::create_dir_all(layer_path.join("bin")).unwrap(); fs::write(layer_path.join("bin/tool"), b"t").unwrap();
        Ok(payload_result(self.step.payload, &self.src))
    }
    fn existing_layer_strategy(&mut self, _c: &BuildContext<B>, d: &LayerData<Meta>) -> Result<ExistingLayerStrategy, GenericError> {
        self.log.borrow_mut().push(format!("strategy(meta={})", d.content_metadata.metadata.version));
        Ok(match self.step.strat { Strat::Keep => ExistingLayerStrategy::Keep, Strat::Update => ExistingLayerStrategy::Update, Strat::Recreate => ExistingLayerStrategy::Recreate })
    }
    fn update(&mut self, _c: &BuildContext<B>, d: &LayerData<Meta>) -> Result<LayerResult<Meta>, GenericError> {
        self.log.borrow_mut().push("update".into());
        fs::write(d.path.join(format!("updated-{}", self.step.payload)), b"u").unwrap();
        Ok(payload_result(self.step.payload, &self.src))
    }
    fn migrate_incompatible_metadata(&mut self, _c: &BuildContext<B>, _m: &GenericMetadata) -> Result<MetadataMigration<Meta>, GenericError> {
        self.log.borrow_mut().push("migrate".into());
        Ok(match self.step.mig { Mig::Recreate => MetadataMigration::RecreateLayer, Mig::Replace => MetadataMigration::ReplaceMetadata(Meta { version: "migrated".into(), checksum: "m".into() }) })
    }
}
type Tree = BTreeMap<PathBuf, String>;
fn tree(p: &Path) -> Tree { if p.exists() { snapshot(p, &[]).into_iter().map(|(k, d, _m)| (k, d)).collect() } else { Tree::new() } }
// what the API should leave for a payload, stated literally from the CNB layout (NOT produced by the writers under test)
fn expected_env_tree(p: u8) -> (Tree, Tree, Tree) {
    if p == 2 { return (Tree::new(), Tree::new(), Tree::new()); }
    let f = |b: &[u8]| format!("file:{:?}", b.to_vec());
    let mk = |es: Vec<(&str, String)>| -> Tree { es.into_iter().map(|(k, v)| (PathBuf::from(k), v)).collect() };
    let all = mk(vec![("ALL.override", f(format!("all-{p}").as_bytes())), ("spring.profiles.active.default", f(b"prod")), ("spring.profiles.default", f(b"x"))]);
    let build = mk(vec![("BUILD.append", f(format!("build-{p}\n").as_bytes())), ("BUILD.delim", f(b":"))]);
    let launch = if p == 1 { mk(vec![("LAUNCH.default", f(b"launch")), ("web", "dir".to_string()), ("web/WEB.prepend", f(b"web-1"))]) }
        else { mk(vec![("worker", "dir".to_string()), ("worker/WORKER.override", f(b"worker-0"))]) };
    (all, build, launch)
}

pub fn layers(thorough: bool) -> Report {
    let depth = if thorough { 3 } else { 2 };
    let mut r = Report::new(
        "witness search on a real tempdir: every sequence of `depth` trait-API handle_layer calls over {strategy keep/update/recreate} x {migration recreate/replace} x {three result payloads: two with env for all four scopes incl. per-process, exec.d sets, SBOM sets, metadata; one bare result without env / exec.d / SBOMs} x {two type sets}, each preceded by {nothing, cache restore, launch-only restore (directory gone, toml kept), layer vanished, metadata rewritten in an unparsable shape, six non-empty and one empty process env directories added under env.launch}: call-back log (create/update exactly when due, create handed an empty directory), on-disk layer (types, metadata, env directories byte-equal to what the real writer produces for the returned env, exec.d programs, SBOM files, files written by the call-backs), returned LayerData equal to a fresh read, sibling layer untouched; non-trivial = sequences with a restore or corrupt step",
        &format!("depth {depth}"),
    );
    let mut steps = vec![];
    for pre in [Pre::Nothing, Pre::CacheRestore, Pre::LaunchOnlyRestore, Pre::Vanish, Pre::Corrupt, Pre::ManyProcessDirs] { for strat in [Strat::Keep, Strat::Update, Strat::Recreate] { for mig in [Mig::Recreate, Mig::Replace] {
        if pre != Pre::Corrupt && mig == Mig::Replace { continue; }
        for payload in [0u8, 1, 2] { steps.push(Step { pre, strat, mig, payload, types: if payload == 0 { 1 } else { 2 } }); }
    } } }
    let mut idx = vec![0usize; depth];
    loop {
        let seq: Vec<Step> = idx.iter().map(|&i| steps[i]).collect();
        // the first call finds no layer: pre-step, strategy and migration cannot matter there, only the payload does
        if seq[0].pre == Pre::Nothing && seq[0].strat == Strat::Keep { r.evaluations += 1; if seq.iter().any(|s| s.pre != Pre::Nothing) { r.nontrivial += 1; } run(&seq, &mut r); }
        let mut p = depth;
        loop { if p == 0 { return r; } p -= 1; idx[p] += 1; if idx[p] < steps.len() { break; } idx[p] = 0; }
    }
}

fn run(seq: &[Step], r: &mut Report) {
    let t = tempfile::tempdir().unwrap(); let root = t.path();
    let layers = root.join("layers"); fs::create_dir_all(layers.join("y/bin")).unwrap();
    fs::write(layers.join("y/bin/tool"), b"t").unwrap(); fs::write(layers.join("y.toml"), b"[types]\nlaunch = true\n").unwrap(); fs::write(layers.join("y.sbom.cdx.json"), b"{}").unwrap();
    let src = root.join("bp"); fs::create_dir_all(&src).unwrap(); fs::write(src.join("prog-a"), b"A").unwrap(); fs::write(src.join("prog-b"), b"B").unwrap();
    let c: BuildContext<B> = ctx(&layers);
    let skip = vec![layers.join("x"), layers.join("x.toml"), layers.join("x.sbom.cdx.json"), layers.join("x.sbom.spdx.json"), layers.join("x.sbom.syft.json")];
    let x = layers.join("x");
    for (i, st) in seq.iter().enumerate() {
        let desc = format!("sequence {seq:?}, failing at step {i}");
        let mut fail = |case: &str, what: &str, exp: String, act: String| r.violation(case, what, desc.clone(), exp, act);
        match st.pre {
            Pre::Nothing | Pre::CacheRestore => {}
            Pre::LaunchOnlyRestore => { let _ = fs::remove_dir_all(&x); }
            Pre::Vanish => { let _ = fs::remove_dir_all(&x); let _ = fs::remove_file(layers.join("x.toml")); for f in ["cdx", "spdx", "syft"] { let _ = fs::remove_file(layers.join(format!("x.sbom.{f}.json"))); } }
            // a restored layer whose launch environment has six process directories with one file each and a seventh, EMPTY one
            Pre::ManyProcessDirs => { if x.is_dir() { fs::create_dir_all(x.join("env.launch/console")).unwrap(); for p in ["web", "worker", "release", "scheduler", "clock", "migrate"] { fs::create_dir_all(x.join("env.launch").join(p)).unwrap(); fs::write(x.join("env.launch").join(p).join(format!("P_{p}.override")), p).unwrap(); } } }
            Pre::Corrupt => { if x.is_dir() { fs::write(layers.join("x.toml"), "[types]\nlaunch = true\n[metadata]\nunexpected = 1\n").unwrap(); } }
        }
        let existed = x.is_dir();
        let parses = existed && fs::read_to_string(layers.join("x.toml")).ok().map(|s| toml::from_str::<LayerContentMetadata<Meta>>(&s).is_ok()).unwrap_or(true);
        let toml_before: Option<LayerContentMetadata<Meta>> = fs::read_to_string(layers.join("x.toml")).ok().and_then(|s| toml::from_str(&s).ok());
        let before = tree(&x);
        let before_sboms: Vec<Option<Vec<u8>>> = ["cdx", "spdx", "syft"].iter().map(|f| fs::read(layers.join(format!("x.sbom.{f}.json"))).ok()).collect();
        let outside_before = snapshot(&layers, &skip);
        let log = Rc::new(RefCell::new(vec![]));
        let res = c.handle_layer(layer_name!("x"), TL { step: *st, src: src.clone(), log: log.clone() });
        let log = log.borrow().clone();
        let data = match res { Ok(d) => d, Err(e) => { fail("result", "handle_layer failed on a scenario without faults", "Ok".into(), e.to_string()); return; } };
        // ---- which call-backs ran
        let (want_log, outcome): (Vec<String>, &str) = if !existed { (vec!["create(empty=true)".into()], "create") }
            else if parses { let m = toml_before.as_ref().map(|l| l.metadata.version.clone()).unwrap_or_default();
                match st.strat { Strat::Keep => (vec![format!("strategy(meta={m})")], "keep"), Strat::Update => (vec![format!("strategy(meta={m})"), "update".into()], "update"), Strat::Recreate => (vec![format!("strategy(meta={m})"), "create(empty=true)".into()], "create") } }
            else { match st.mig { Mig::Recreate => (vec!["migrate".into(), "create(empty=true)".into()], "create"),
                Mig::Replace => match st.strat { Strat::Keep => (vec!["migrate".into(), "strategy(meta=migrated)".into()], "keep_migrated"), Strat::Update => (vec!["migrate".into(), "strategy(meta=migrated)".into(), "update".into()], "update"), Strat::Recreate => (vec!["migrate".into(), "strategy(meta=migrated)".into(), "create(empty=true)".into()], "create") } } };
        if log != want_log { fail("callbacks", "create/update/strategy/migration run exactly when due, create on an empty directory", format!("{want_log:?}"), format!("{log:?}")); }
        // ---- what is on disk
        let after = tree(&x);
        let on_disk: Option<LayerContentMetadata<Meta>> = fs::read_to_string(layers.join("x.toml")).ok().and_then(|s| toml::from_str(&s).ok());
        let types = on_disk.as_ref().and_then(|l| l.types);
        if types != Some(types_of(st.types)) { fail("types", "the layer's types are the ones the layer declares", format!("{:?}", types_of(st.types)), format!("{types:?}")); }
        let sboms: Vec<Option<Vec<u8>>> = ["cdx", "spdx", "syft"].iter().map(|f| fs::read(layers.join(format!("x.sbom.{f}.json"))).ok()).collect();
        let part = |t: &Tree, name: &str| -> Tree { t.iter().filter(|(k, _)| k.starts_with(name)).map(|(k, v)| (k.clone(), v.clone())).collect() };
        let files = |t: &Tree| -> Tree { t.iter().filter(|(k, _)| !k.starts_with("env") && !k.starts_with("env.build") && !k.starts_with("env.launch") && !k.starts_with("exec.d")).map(|(k, v)| (k.clone(), v.clone())).collect() };
        match outcome {
            "create" | "update" => {
                let p = st.payload;
                let (e, eb, el) = expected_env_tree(p);
                let rel = |t: Tree, name: &str| -> Tree { t.into_iter().map(|(k, v)| (PathBuf::from(name).join(k), v)).collect::<Tree>() };
                let mut want_env = rel(e, "env"); want_env.extend(rel(eb, "env.build")); want_env.extend(rel(el, "env.launch"));
                for (d, has) in [("env", true), ("env.build", true), ("env.launch", true)] { if has && after.keys().any(|k| k.starts_with(d)) || want_env.keys().any(|k| k.starts_with(d)) { want_env.insert(PathBuf::from(d), "dir".into()); } }
                let got_env: Tree = after.iter().filter(|(k, _)| k.starts_with("env") || k.starts_with("env.build") || k.starts_with("env.launch")).map(|(k, v)| (k.clone(), v.clone())).collect();
                if got_env != want_env { fail("env", "the environment on disk (all four scopes) is exactly what the call-back returned", format!("{want_env:?}"), format!("{got_env:?}")); }
                let want_execd: Tree = if p == 2 { Tree::new() } else if p == 1 { [("exec.d", "dir"), ("exec.d/one", "file:[65]"), ("exec.d/two", "file:[66]")].iter().map(|(k, v)| (PathBuf::from(k), v.to_string())).collect() } else { [("exec.d", "dir"), ("exec.d/zero", "file:[66]")].iter().map(|(k, v)| (PathBuf::from(k), v.to_string())).collect() };
                if part(&after, "exec.d") != want_execd { fail("exec_d", "exec.d holds exactly the programs the call-back returned", format!("{want_execd:?}"), format!("{:?}", part(&after, "exec.d"))); }
                let want_sboms: Vec<Option<Vec<u8>>> = if p == 2 { vec![None, None, None] } else if p == 1 { vec![Some(b"cdx-1".to_vec()), None, None] } else { vec![None, Some(b"spdx-0".to_vec()), Some(b"syft-0".to_vec())] };
                if sboms != want_sboms { fail("sboms", "the SBOM files are exactly the ones the call-back returned", format!("{want_sboms:?}"), format!("{sboms:?}")); }
                let want_meta = Meta { version: format!("v{p}"), checksum: format!("c{p}") };
                if on_disk.as_ref().map(|l| &l.metadata) != Some(&want_meta) { fail("metadata", "the metadata on disk is what the call-back returned", format!("{want_meta:?}"), format!("{on_disk:?}")); }
                let mut want_files = if outcome == "create" { Tree::new() } else { files(&before) };
                want_files.insert(PathBuf::from(format!("{}-{p}", if outcome == "create" { "created" } else { "updated" })), if outcome == "create" { "file:[112, 97, 121, 108, 111, 97, 100]".into() } else { "file:[117]".into() });
                if outcome == "create" { want_files.insert(PathBuf::from("bin"), "dir".into()); want_files.insert(PathBuf::from("bin/tool"), "file:[116]".into()); }
                if files(&after) != want_files { fail("files", "a created layer starts from an empty directory, an updated one keeps its files", format!("{want_files:?}"), format!("{:?}", files(&after))); }
            }
            _ => {
                // an EMPTY process env directory carries no environment: whether it survives the rewrite is not part of "what was there before"
                let noempty = |t: &Tree| -> Tree { t.iter().filter(|(k, v)| !(v.as_str() == "dir" && k.starts_with("env.launch/") && !t.keys().any(|o| o != *k && o.starts_with(k)))).map(|(k, v)| (k.clone(), v.clone())).collect() };
                let (after, before) = (noempty(&after), noempty(&before));
                if after != before { fail("keep", "keep leaves the layer directory (files, env, exec.d) as it was", format!("{before:?}"), format!("{after:?}")); }
                if sboms != before_sboms { fail("keep", "keep leaves the SBOM files as they were", format!("{before_sboms:?}"), format!("{sboms:?}")); }
                let want_meta = if outcome == "keep" { toml_before.as_ref().map(|l| l.metadata.clone()) } else { Some(Meta { version: "migrated".into(), checksum: "m".into() }) };
                if on_disk.as_ref().map(|l| l.metadata.clone()) != want_meta { fail("keep", "keep leaves the metadata (or the migrated metadata) in place", format!("{want_meta:?}"), format!("{on_disk:?}")); }
            }
        }
        // exec.d programs are copies: rewriting a program's SOURCE file in place afterwards does not reach into the layer
        if (outcome == "create" || outcome == "update") && st.payload != 2 {
            let before_execd = part(&tree(&x), "exec.d");
            for (f, orig) in [("prog-a", b"A"), ("prog-b", b"B")] { let mut h = fs::OpenOptions::new().write(true).open(src.join(f)).unwrap(); std::io::Write::write_all(&mut h, b"Z").unwrap(); drop(h); let _ = orig; }
            let after_execd = part(&tree(&x), "exec.d");
            fs::write(src.join("prog-a"), b"A").unwrap(); fs::write(src.join("prog-b"), b"B").unwrap();
            if after_execd != before_execd { fail("exec_d", "the layer's exec.d programs are copies of their sources: rewriting a source file in place afterwards leaves the layer as it was", format!("{before_execd:?}"), format!("{after_execd:?}")); }
        }
        // ---- returned data == disk
        let reread_env_tree = { let t2 = tempfile::tempdir().unwrap(); data.env.write_to_layer_dir(t2.path()).unwrap(); let t3 = tempfile::tempdir().unwrap(); LayerEnv::read_from_layer_dir(&x).unwrap().write_to_layer_dir(t3.path()).unwrap(); (tree(t2.path()), tree(t3.path())) };
        if reread_env_tree.0 != reread_env_tree.1 || data.path != x || on_disk.as_ref().map(|l| (&l.metadata, l.types)) != Some((&data.content_metadata.metadata, data.content_metadata.types)) {
            fail("returned_data", "the returned layer data equals what is on disk", "env / metadata / types / path as on disk".into(), format!("path {:?} metadata {:?}", data.path, data.content_metadata));
        }
        // the returned environment applies like the one on disk, IMPLICIT layer paths (bin/ -> PATH) included
        {
            let fresh = LayerEnv::read_from_layer_dir(&x).unwrap();
            for sc in [Scope::Build, Scope::Launch] {
                let (a, b) = (data.env.apply_to_empty(sc.clone()), fresh.apply_to_empty(sc.clone()));
                if a.get("PATH") != b.get("PATH") { fail("returned_data", "the returned layer data equals what is on disk: applying its environment gives the same PATH (implicit <layer>/bin entry)", format!("{sc:?}: {:?}", b.get("PATH")), format!("{:?}", a.get("PATH"))); }
            }
        }
        // the returned environment itself (not via the writers): the per-process and launch entries the call-back returned are in it
        if (outcome == "create" || outcome == "update") && st.payload != 2 {
            let (scope, var, want) = if st.payload == 1 { (Scope::Process("web".into()), "WEB", "web-1".to_string()) } else { (Scope::Process("worker".into()), "WORKER", "worker-0".to_string()) };
            let got = data.env.apply_to_empty(scope.clone());
            if got.get(var).map(|v| v.to_string_lossy().to_string()) != Some(want.clone()) || got.get("ALL").map(|v| v.to_string_lossy().to_string()) != Some(format!("all-{}", st.payload)) {
                fail("returned_data", "the returned layer data carries the environment the call-back returned, per-process entries included", format!("{var}={want} and ALL=all-{} for {scope:?}", st.payload), format!("{:?} / {:?}", got.get(var), got.get("ALL")));
            }
        }
        if snapshot(&layers, &skip) != outside_before { fail("frame", "other layers are untouched", "unchanged".into(), "changed".into()); }
    }
    if r.samples.len() < 3 { r.sample(format!("{seq:?}")); }
}
