#!/usr/bin/env python3
# Independent reader for bounded/c07_toml: parses every <n>.toml under argv[1] with Python's tomllib (TOML 1.0), applies the
# CNB spec's field names and defaults, and compares with <n>.json (what the harness constructed through the public builders).
# Output: one JSON line {"checked": N, "mismatches": [{"file","kind","expected","actual"}]}
import json, os, sys, tomllib, datetime

def norm(v):
    if isinstance(v, dict): return {k: norm(x) for k, x in v.items()}
    if isinstance(v, list): return [norm(x) for x in v]
    if isinstance(v, (datetime.datetime, datetime.date, datetime.time)): return {"$datetime": v.isoformat().replace("+00:00", "Z")}
    if isinstance(v, float): return {"$float": repr(v)}
    return v

MISSING = "<key missing>"
def launch(doc):
    return {"processes": [{"type": p.get("type", MISSING), "command": p.get("command", MISSING), "args": p.get("args", []), "default": p.get("default", False),
                           "working-dir": p.get("working-dir", ".")} for p in doc.get("processes", [])],
            "labels": [{"key": l.get("key", MISSING), "value": l.get("value", MISSING)} for l in doc.get("labels", [])],
            "slices": [{"paths": s.get("paths", MISSING)} for s in doc.get("slices", [])]}
def group(g):
    return {"provides": [p.get("name", MISSING) for p in g.get("provides", [])],
            "requires": [{"name": r.get("name", MISSING), "metadata": norm(r.get("metadata", {}))} for r in g.get("requires", [])]}
def plan(doc):
    return [group(doc)] + [group(o) for o in doc.get("or", [])]
def lcm(doc):
    t = doc.get("types")
    return {"types": None if t is None else {"launch": t.get("launch", False), "build": t.get("build", False), "cache": t.get("cache", False)},
            "metadata": norm(doc.get("metadata")) if "metadata" in doc else None}
def store(doc): return {"metadata": norm(doc.get("metadata", {}))}
def execd(doc): return norm(doc)
READERS = {"launch": launch, "plan": plan, "lcm": lcm, "store": store, "execd": execd}

def main(d):
    mism, n = [], 0
    for f in sorted(os.listdir(d)):
        if not f.endswith(".json"): continue
        exp = json.load(open(os.path.join(d, f)))
        n += 1
        tp = os.path.join(d, f[:-5] + ".toml")
        try:
            raw = open(tp, "rb").read()
            doc = tomllib.loads(raw.decode("utf-8"))
        except Exception as e:
            mism.append({"file": f, "kind": exp["kind"], "expected": "valid TOML 1.0", "actual": f"{type(e).__name__}: {e}", "text": raw.decode("utf-8", "replace")[:400] if 'raw' in dir() else ""})
            continue
        got = READERS[exp["kind"]](doc)
        if got != exp["value"]:
            mism.append({"file": f, "kind": exp["kind"], "expected": json.dumps(exp["value"])[:600], "actual": json.dumps(got)[:600], "text": raw.decode("utf-8", "replace")[:400]})
    print(json.dumps({"checked": n, "mismatches": mism[:5]}))
main(sys.argv[1])
