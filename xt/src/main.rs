// xt — mechanical extractor: pulls real items out of the /repo working tree and prints them
// again from the AST with a fixed table of rewrites (DESIGN.md §2.1). No item text is ever
// taken from /verif: bodies come from the file given in the take line, statement for statement.
//
// usage: xt <repo-root> <takes-file>
// takes-file: one take per line   key|relative/file.rs|selector|opt,opt=val;val,...
// selector:  fn NAME | impl TYPE :: fn NAME | impl TRAIT for TYPE :: fn NAME | trait NAME :: fn NAME
//            | enum NAME | struct NAME | const NAME | type NAME | macro NAME(ARGIDX..) handled by `mac`
//            optional leading `mod a :: mod b ::` to descend into inline modules
// output: for every take
//   @@ITEM key
//   @@META k=v ...
//   @@TEXT
//   ...
//   @@END
// or `@@ERROR key message` (the driver turns that into exit 2 / UNDECIDED).
use proc_macro2::{Delimiter, Spacing, TokenStream, TokenTree};
use quote::{format_ident, quote, ToTokens};
use std::collections::BTreeMap;
use syn::visit_mut::{self, VisitMut};
use syn::{parse_quote, Attribute, Expr, FnArg, ImplItem, Item, Meta, Stmt, TraitItem, Type};

#[derive(Default, Clone)]
struct Opts {
    world: bool,            // R1: add `world: &mut World` and rewrite I/O calls
    worldself: bool,        // R1 variant: world is not added to the signature (fn has none) but calls are rewritten
    worldfns: Vec<String>,  // callee names (fn / method / assoc fn) that take `world` as first argument
    worldm: Vec<String>,    // receiver methods turned into world.path_<m>(recv, args)
    qmark: bool,            // R19
    noeta: bool,            // disable R9
    wrap_exit: bool,        // let __r = TAIL; EXIT; __r
    ret: String,            // name of the return value
    rename: Option<String>, // emit under another name
    index_shim: Vec<String>,// R20 receivers
    dynfn: bool,            // R4
    keep_vis: bool,
    mac_args: Vec<String>,  // macro instantiation arguments
    macfile: Option<String>, // file holding the macro_rules! definition (the take's file holds the invocation)
    pure_exit: bool,        // R17
    selfty: Option<String>, // replace `Self` by this type in signature/body (for items moved out of their impl)
    nofmt: bool,            // R5 off
    unwrap_default: bool,
    letanchors: Vec<String>, // local names after whose `let` an `after_let NAME K` anchor is emitted
    fieldty: Vec<(String, String)>, // struct take: replace the type of a field (R4 for `dyn Fn` fields)
    copy: bool,             // struct/enum take: keep derive(Clone, Copy) when the original derives both (R8 keeps no other derive)
    structural: bool,       // struct/enum take: re-emit derive(PartialEq, Eq) as derive(Structural, PartialEq, Eq) when the original derives both
    modfn: Vec<(String, String)>, // R24: module-qualified callee -> distinct emitted name
    optmap: bool,           // R32: `X.map(|p| IO)` in this take is Option::map
    vpanic: bool,           // R40: `panic!(..)` -> `vpanic()` (a `-> !` shim: control does not continue; the message is dropped)
    anf: bool,              // R38: call / closure arguments of the tail call are bound to locals first (left to right, inner calls before outer: Rust's evaluation order), so that proof text can name them
    dropnested: bool,       // R35: nested `fn` items are removed from the body (each is taken separately with `:: nested fn NAME` and emitted at module level; nested fns cannot capture)
    r28: bool,              // R28: `X.and_then(|p| BODY)` with I/O in BODY -> `match X { Ok(p) => BODY, Err(e) => Err(e) }`
    mac_for: Option<(String, String)>, // macro instantiation: use the invocation whose metavariable .0 equals .1
    anchors: Vec<String>,   // callee names after whose enclosing statement an `after_call NAME K` anchor is emitted
    r3calls: Vec<(String, usize)>, // callee -> number of generics R3 added to it (turbofish call sites get that many `_`)
}

fn parse_opts(s: &str) -> Opts {
    let mut o = Opts { ret: "r".to_string(), wrap_exit: true, ..Default::default() };
    for part in s.split(',') {
        let part = part.trim();
        if part.is_empty() { continue; }
        let (k, v) = match part.split_once('=') { Some((k, v)) => (k, v), None => (part, "") };
        let list = || v.split(';').filter(|x| !x.is_empty()).map(|x| x.trim().to_string()).collect::<Vec<_>>();
        match k {
            "world" => o.world = true,
            "worldself" => o.worldself = true,
            "worldfns" => o.worldfns = list(),
            "worldm" => o.worldm = list(),
            "qmark" => o.qmark = true,
            "noeta" => o.noeta = true,
            "wrap_exit" => o.wrap_exit = true,
            "nowrap" => o.wrap_exit = false,
            "ret" => o.ret = v.to_string(),
            "rename" => o.rename = Some(v.to_string()),
            "index_shim" => o.index_shim = list(),
            "dynfn" => o.dynfn = true,
            "keep_vis" => o.keep_vis = true,
            "mac_args" => o.mac_args = list(),
            "pure_exit" => o.pure_exit = true,
            "macfile" => o.macfile = Some(v.to_string()),
            "selfty" => o.selfty = Some(v.to_string()),
            "nofmt" => o.nofmt = true,
            "anchors" => o.anchors = list(),
            "r28" => o.r28 = true,
            "dropnested" => o.dropnested = true,
            "anf" => o.anf = true,
            "vpanic" => o.vpanic = true,
            "optmap" => o.optmap = true,
            "modfn" => o.modfn = v.split(';').filter_map(|kv| kv.rsplit_once(':').map(|(a, b)| (a.to_string(), b.to_string()))).collect(),
            "structural" => o.structural = true,
            "copy" => o.copy = true,
            "mac_for" => o.mac_for = v.split_once(':').map(|(a, b)| (a.to_string(), b.to_string())),
            "fieldty" => o.fieldty = list().iter().filter_map(|x| x.split_once(':').map(|(a, b)| (a.to_string(), b.to_string()))).collect(),
            "letanchors" => o.letanchors = list(),
            "r3calls" => o.r3calls = list().iter().filter_map(|x| x.split_once(':').map(|(a, b)| (a.to_string(), b.parse().unwrap_or(1)))).collect(),
            _ => { eprintln!("xt: unknown option {k}"); std::process::exit(3); }
        }
    }
    if (o.world || o.worldself) && o.worldm.is_empty() {
        o.worldm = ["exists", "is_dir", "is_file", "is_symlink", "symlink_metadata", "metadata", "file_type", "try_exists"].iter().map(|x| x.to_string()).collect();
    }
    o
}

// ---------------------------------------------------------------- cfg evaluation (R6)
// configuration verified: unix, default features (no "trace"), not test
fn cfg_eval(m: &Meta) -> Option<bool> {
    match m {
        Meta::Path(p) => {
            let s = p.to_token_stream().to_string();
            match s.as_str() { "test" => Some(false), "unix" => Some(true), "windows" => Some(false), "debug_assertions" => Some(false), _ => None }
        }
        Meta::NameValue(nv) => {
            let k = nv.path.to_token_stream().to_string();
            let v = nv.value.to_token_stream().to_string();
            match (k.as_str(), v.as_str()) {
                ("target_family", "\"unix\"") => Some(true),
                ("target_family", "\"windows\"") => Some(false),
                ("target_os", "\"linux\"") => Some(true),
                ("target_os", _) => Some(false),
                ("feature", "\"trace\"") => Some(false),
                _ => None,
            }
        }
        Meta::List(l) => {
            let k = l.path.to_token_stream().to_string();
            let inner: syn::punctuated::Punctuated<Meta, syn::Token![,]> =
                l.parse_args_with(syn::punctuated::Punctuated::parse_terminated).ok()?;
            let vals: Option<Vec<bool>> = inner.iter().map(cfg_eval).collect();
            let vals = vals?;
            match k.as_str() {
                "not" => Some(!vals[0]),
                "all" => Some(vals.iter().all(|b| *b)),
                "any" => Some(vals.iter().any(|b| *b)),
                _ => None,
            }
        }
    }
}

enum CfgDecision { Keep, Drop, Unknown(String) }
fn cfg_of(attrs: &[Attribute]) -> CfgDecision {
    for a in attrs {
        if a.path().is_ident("cfg") {
            if let Meta::List(l) = &a.meta {
                if let Ok(inner) = l.parse_args::<Meta>() {
                    match cfg_eval(&inner) {
                        Some(true) => continue,
                        Some(false) => return CfgDecision::Drop,
                        None => return CfgDecision::Unknown(a.to_token_stream().to_string()),
                    }
                }
            }
            return CfgDecision::Unknown(a.to_token_stream().to_string());
        }
    }
    CfgDecision::Keep
}
fn strip_attrs(attrs: &mut Vec<Attribute>) {
    attrs.clear();
}

// ---------------------------------------------------------------- rewriting visitor
struct Rw {
    o: Opts,
    loop_no: usize,
    closure_no: usize,
    closure_depth: usize,
    counts: BTreeMap<&'static str, usize>,
    errors: Vec<String>,
    removed_prints: usize,
    nested_fns: Vec<String>,
    closure_params: Vec<String>,
    closure_label: Option<String>,
    closure_counts: BTreeMap<String, usize>,
    closure_names: Vec<String>,
}
impl Rw {
    fn bump(&mut self, r: &'static str) { *self.counts.entry(r).or_insert(0) += 1; }
    fn world_expr(&mut self) -> Expr {
        if self.closure_depth > 0 {
            self.errors.push("UNSUPPORTED world operation inside a closure (closures cannot capture &mut World)".into());
        }
        parse_quote!(world)
    }
    fn filter_stmts(&mut self, stmts: &mut Vec<Stmt>) {
        let mut out = Vec::new();
        for mut s in stmts.drain(..) {
            // R6 on statements
            let decision = match &s {
                Stmt::Local(l) => cfg_of(&l.attrs),
                Stmt::Item(Item::Use(_)) => { self.bump("R13"); continue; }
                Stmt::Item(Item::Fn(_)) if self.o.dropnested => { self.bump("R35"); continue; }
                Stmt::Item(Item::Fn(f)) => cfg_of(&f.attrs),
                Stmt::Item(Item::Const(f)) => cfg_of(&f.attrs),
                Stmt::Expr(e, _) => cfg_of(expr_attrs(e)),
                Stmt::Macro(m) => {
                    let name = m.mac.path.to_token_stream().to_string();
                    if name == "eprintln" || name == "eprint" || name == "println" || name == "print" {
                        self.bump("R12"); self.removed_prints += 1; continue;
                    }
                    cfg_of(&m.attrs)
                }
                _ => CfgDecision::Keep,
            };
            match decision {
                CfgDecision::Drop => { self.bump("R6"); continue; }
                CfgDecision::Unknown(a) => { self.errors.push(format!("UNSUPPORTED cfg predicate {a}")); }
                CfgDecision::Keep => {}
            }
            // remove the (true) cfg attribute
            match &mut s {
                Stmt::Local(l) => { if !l.attrs.is_empty() { self.bump("R6"); } strip_attrs(&mut l.attrs) }
                Stmt::Expr(e, _) => { if let Some(a) = expr_attrs_mut(e) { if !a.is_empty() { self.bump("R6"); } a.clear(); } }
                Stmt::Macro(m) => strip_attrs(&mut m.attrs),
                _ => {}
            }
            out.push(s);
        }
        *stmts = out;
    }
}
fn expr_attrs(e: &Expr) -> &[Attribute] {
    match e {
        Expr::Block(b) => &b.attrs, Expr::Call(b) => &b.attrs, Expr::MethodCall(b) => &b.attrs, Expr::If(b) => &b.attrs,
        Expr::Match(b) => &b.attrs, Expr::Try(b) => &b.attrs, Expr::Macro(b) => &b.attrs, Expr::Assign(b) => &b.attrs,
        Expr::ForLoop(b) => &b.attrs, Expr::While(b) => &b.attrs, Expr::Loop(b) => &b.attrs, Expr::Return(b) => &b.attrs,
        _ => &[],
    }
}
fn expr_attrs_mut(e: &mut Expr) -> Option<&mut Vec<Attribute>> {
    Some(match e {
        Expr::Block(b) => &mut b.attrs, Expr::Call(b) => &mut b.attrs, Expr::MethodCall(b) => &mut b.attrs, Expr::If(b) => &mut b.attrs,
        Expr::Match(b) => &mut b.attrs, Expr::Try(b) => &mut b.attrs, Expr::Macro(b) => &mut b.attrs, Expr::Assign(b) => &mut b.attrs,
        Expr::ForLoop(b) => &mut b.attrs, Expr::While(b) => &mut b.attrs, Expr::Loop(b) => &mut b.attrs, Expr::Return(b) => &mut b.attrs,
        _ => return None,
    })
}

// R11: in iterable position `E.iter()` -> `&E` (std: `impl IntoIterator for &C` is defined as `self.iter()`)
fn strip_iter(e: &Expr) -> Option<Expr> {
    if let Expr::MethodCall(mc) = e {
        if mc.method == "iter" && mc.args.is_empty() {
            let r = &mc.receiver;
            return Some(parse_quote!(&#r));
        }
    }
    None
}
fn path_last(e: &Expr) -> Option<String> {
    if let Expr::Path(p) = e { p.path.segments.last().map(|s| s.ident.to_string()) } else { None }
}
fn path_str(e: &Expr) -> Option<String> {
    if let Expr::Path(p) = e { Some(p.path.segments.iter().map(|s| s.ident.to_string()).collect::<Vec<_>>().join("::")) } else { None }
}

// split a format string with only `{}` / `{ident}` placeholders
fn split_fmt(s: &str) -> Option<Vec<Result<String, String>>> {
    // Ok(lit) / Err(placeholder name, "" for positional)
    let mut out = Vec::new();
    let mut lit = String::new();
    let cs: Vec<char> = s.chars().collect();
    let mut i = 0;
    while i < cs.len() {
        let c = cs[i];
        if c == '{' {
            if i + 1 < cs.len() && cs[i + 1] == '{' { lit.push('{'); i += 2; continue; }
            let mut j = i + 1; let mut name = String::new();
            while j < cs.len() && cs[j] != '}' { name.push(cs[j]); j += 1; }
            if j >= cs.len() { return None; }
            if !name.chars().all(|c| c.is_alphanumeric() || c == '_') { return None; }
            if !lit.is_empty() { out.push(Ok(std::mem::take(&mut lit))); }
            out.push(Err(name));
            i = j + 1;
        } else if c == '}' {
            if i + 1 < cs.len() && cs[i + 1] == '}' { lit.push('}'); i += 2; continue; }
            return None;
        } else { lit.push(c); i += 1; }
    }
    if !lit.is_empty() { out.push(Ok(lit)); }
    Some(out)
}

impl VisitMut for Rw {
    fn visit_block_mut(&mut self, b: &mut syn::Block) {
        self.filter_stmts(&mut b.stmts);
        visit_mut::visit_block_mut(self, b);
    }
    fn visit_item_fn_mut(&mut self, f: &mut syn::ItemFn) {
        // nested fn: give it a contract placeholder too
        self.nested_fns.push(f.sig.ident.to_string());
        strip_attrs(&mut f.attrs);
        visit_mut::visit_item_fn_mut(self, f);
        let marker = format_ident!("__verif_nested_{}", f.sig.ident);
        f.block.stmts.insert(0, parse_quote!(#marker!();));
    }
    fn visit_arm_mut(&mut self, a: &mut syn::Arm) {
        match cfg_of(&a.attrs) { CfgDecision::Unknown(x) => self.errors.push(format!("UNSUPPORTED cfg on match arm {x}")), _ => {} }
        strip_attrs(&mut a.attrs);
        visit_mut::visit_arm_mut(self, a);
    }
    fn visit_expr_match_mut(&mut self, m: &mut syn::ExprMatch) {
        // R6 on arms
        let mut arms = Vec::new();
        for a in m.arms.drain(..) {
            match cfg_of(&a.attrs) { CfgDecision::Drop => { self.bump("R6"); } _ => arms.push(a) }
        }
        m.arms = arms;
        visit_mut::visit_expr_match_mut(self, m);
    }
    fn visit_expr_mut(&mut self, e: &mut Expr) {
        match e {
            // R15: `if let [_, a, b] = xs { A } else { B }` -> `if xs.len() == 3 { let a = &xs[1]; let b = &xs[2]; A } else { B }`
            Expr::If(i) if matches!(&*i.cond, Expr::Let(l) if matches!(&*l.pat, syn::Pat::Slice(_))) => {
                let (pat, scrut) = if let Expr::Let(l) = &*i.cond { ((*l.pat).clone(), (*l.expr).clone()) } else { unreachable!() };
                if let syn::Pat::Slice(ps) = pat {
                    let n = ps.elems.len();
                    let mut lets: Vec<Stmt> = vec![]; let mut ok = true;
                    for (k, el) in ps.elems.iter().enumerate() {
                        match el {
                            syn::Pat::Wild(_) => {}
                            syn::Pat::Ident(pi) if pi.subpat.is_none() && pi.by_ref.is_none() => { let id = &pi.ident; lets.push(parse_quote!(let #id = &#scrut[#k];)); }
                            _ => ok = false,
                        }
                    }
                    if ok {
                        self.bump("R15");
                        let then_stmts = i.then_branch.stmts.clone();
                        let els = i.else_branch.as_ref().map(|(_, e)| (**e).clone());
                        let mut newif: Expr = match els { Some(e2) => parse_quote!(if #scrut.len() == #n { #(#lets)* #(#then_stmts)* } else #e2), None => parse_quote!(if #scrut.len() == #n { #(#lets)* #(#then_stmts)* }) };
                        visit_mut::visit_expr_mut(self, &mut newif);
                        *e = newif;
                        return;
                    }
                    self.errors.push("UNSUPPORTED slice pattern (only `_` and plain identifiers, no rest pattern)".into());
                }
            }
            // R15b: `match E { &[a, b, c] => A, _ => B }` -> `{ let __sl = E; if __sl.len() == 3 { let a = __sl[0]; ..; A } else { B } }`
            // (a `&[..]` pattern binds the elements by value, so they are Copy)
            Expr::Match(m) if m.arms.len() == 2 && m.arms[0].guard.is_none() && matches!(&m.arms[1].pat, syn::Pat::Wild(_))
                && matches!(&m.arms[0].pat, syn::Pat::Reference(r) if matches!(&*r.pat, syn::Pat::Slice(_))) => {
                let scrut = (*m.expr).clone();
                let ps = if let syn::Pat::Reference(r) = &m.arms[0].pat { if let syn::Pat::Slice(ps) = &*r.pat { ps.clone() } else { unreachable!() } } else { unreachable!() };
                let n = ps.elems.len();
                let mut lets: Vec<Stmt> = vec![]; let mut ok = true;
                for (k, el) in ps.elems.iter().enumerate() {
                    match el {
                        syn::Pat::Wild(_) => {}
                        syn::Pat::Ident(pi) if pi.subpat.is_none() && pi.by_ref.is_none() => { let id = &pi.ident; lets.push(parse_quote!(let #id = __sl[#k];)); }
                        _ => ok = false,
                    }
                }
                if ok {
                    self.bump("R15");
                    let a = (*m.arms[0].body).clone(); let b = (*m.arms[1].body).clone();
                    // (a `match` with a binding arm keeps the scrutinee's temporaries alive exactly as the original match does)
                    let mut ne: Expr = parse_quote!(match #scrut { __sl => if __sl.len() == #n { #(#lets)* #a } else { #b } });
                    visit_mut::visit_expr_mut(self, &mut ne);
                    *e = ne;
                    return;
                }
                self.errors.push("UNSUPPORTED slice pattern in match (only `_` and plain identifiers, no rest pattern)".into());
            }
            // R2: for -> loop + match over a shim iterator
            Expr::ForLoop(fl) => {
                let n = self.loop_no; self.loop_no += 1; self.bump("R2");
                let mut iter = (*fl.expr).clone();
                if let Some(x) = strip_iter(&iter) { iter = x; self.bump("R11"); }
                self.visit_expr_mut(&mut iter);
                let mut body = fl.body.clone();
                self.visit_block_mut(&mut body);
                let pat = &fl.pat;
                let it = format_ident!("it{}", n);
                let itv = format_ident!("__iter{}", n);
                let head = format_ident!("__verif_loop_head_{}", n);
                let bstart = format_ident!("__verif_body_start_{}", n);
                let bend = format_ident!("__verif_body_end_{}", n);
                let after = format_ident!("__verif_after_loop_{}", n);
                let before = format_ident!("__verif_before_loop_{}", n);
                let stmts = &body.stmts;
                let label = &fl.label;
                *e = parse_quote!({
                    let #itv = #iter;
                    let mut #it = ShimIntoIter::shim_iter(#itv);
                    #before!();
                    #label loop {
                        #head!();
                        match #it.next() { None => break, Some(#pat) => { #bstart!(); #(#stmts)* #bend!(); } }
                    }
                    #after!();
                });
                return;
            }
            // R2b: while c {b}  ->  loop { if !(c) { break; } b }   (definition of `while`)
            Expr::While(w) => {
                let n = self.loop_no; self.loop_no += 1; self.bump("R2b");
                let mut cond = (*w.cond).clone();
                let mut body = w.body.clone();
                self.visit_block_mut(&mut body);
                let head = format_ident!("__verif_loop_head_{}", n);
                let bstart = format_ident!("__verif_body_start_{}", n);
                let bend = format_ident!("__verif_body_end_{}", n);
                let stmts = &body.stmts;
                let label = &w.label;
                if let Expr::Let(l) = &mut cond {
                    let mut scrut = (*l.expr).clone();
                    self.visit_expr_mut(&mut scrut);
                    let pat = &l.pat;
                    *e = parse_quote!(#label loop { #head!(); match #scrut { #pat => { #bstart!(); #(#stmts)* #bend!(); } _ => break } });
                } else {
                    self.visit_expr_mut(&mut cond);
                    *e = parse_quote!(#label loop { #head!(); if !(#cond) { break; } #bstart!(); #(#stmts)* #bend!(); });
                }
                return;
            }
            Expr::Loop(l) => {
                let n = self.loop_no; self.loop_no += 1;
                self.visit_block_mut(&mut l.body);
                let head = format_ident!("__verif_loop_head_{}", n);
                let bstart = format_ident!("__verif_body_start_{}", n);
                let bend = format_ident!("__verif_body_end_{}", n);
                let stmts = &l.body.stmts;
                let label = &l.label;
                *e = parse_quote!(#label loop { #head!(); #bstart!(); #(#stmts)* #bend!(); });
                return;
            }
            Expr::Closure(c) => {
                let n = self.closure_no; self.closure_no += 1;
                // closures are addressed by the method they are passed to: `closure map_err 0`, else `closure anon K`
                let label = self.closure_label.take().unwrap_or_else(|| "anon".to_string());
                let kk = { let e = self.closure_counts.entry(label.clone()).or_insert(0); let k = *e; *e += 1; k };
                let cname = format!("{}_{}", label, kk);
                self.closure_names.push(cname.clone());
                // R18
                let mut k: usize = 0;
                for p in c.inputs.iter_mut() {
                    let is_wild = match p { syn::Pat::Wild(_) => true, syn::Pat::Type(pt) => matches!(*pt.pat, syn::Pat::Wild(_)), _ => false };
                    if is_wild {
                        let id = format_ident!("_u{}_{}", n, k); k += 1;
                        match p { syn::Pat::Type(pt) => { pt.pat = Box::new(parse_quote!(#id)); } _ => { *p = parse_quote!(#id); } }
                        self.bump("R18");
                    }
                }
                // R27: pattern parameters `|(a, b)| E`  ->  `|__pK| { let (a, b) = __pK; E }`
                {
                    let mut lets: Vec<Stmt> = vec![];
                    for (pi, p) in c.inputs.iter_mut().enumerate() {
                        let (inner, ty): (syn::Pat, Option<Box<Type>>) = match &*p { syn::Pat::Type(pt) => ((*pt.pat).clone(), Some(pt.ty.clone())), other => (other.clone(), None) };
                        if !matches!(inner, syn::Pat::Ident(_) | syn::Pat::Wild(_)) {
                            let id = format_ident!("__p{}_{}", n, pi);
                            lets.push(parse_quote!(let #inner = #id;));
                            *p = match ty { Some(t) => parse_quote!(#id: #t), None => parse_quote!(#id) };
                            self.bump("R27");
                        }
                    }
                    if !lets.is_empty() { let b = &c.body; c.body = Box::new(parse_quote!({ #(#lets)* #b })); }
                }
                let mark = self.closure_params.len();
                for p in c.inputs.iter() {
                    let pat = match p { syn::Pat::Type(pt) => &*pt.pat, other => other };
                    if let syn::Pat::Ident(pi) = pat { self.closure_params.push(pi.ident.to_string()); }
                }
                self.closure_depth += 1;
                self.visit_expr_mut(&mut c.body);
                self.closure_depth -= 1;
                self.closure_params.truncate(mark);
                // closure header placeholder: emitted as a call wrapper the driver can replace
                let hdr = format_ident!("__verif_closure_{}", cname);
                let inner = e.clone();
                *e = parse_quote!(#hdr!(#inner));
                return;
            }
            _ => {}
        }
        // R28: Result::and_then with a closure that performs I/O (definition of and_then)
        if self.o.r28 {
            if let Expr::MethodCall(mc) = e {
                if mc.method == "and_then" && mc.args.len() == 1 {
                    if let Expr::Closure(c) = &mc.args[0] {
                        if c.inputs.len() == 1 && c.body.to_token_stream().to_string().contains("fs ::") | c.body.to_token_stream().to_string().contains("read_toml_file") {
                            let recv = (*mc.receiver).clone(); let pat = c.inputs[0].clone(); let body = (*c.body).clone();
                            self.bump("R28");
                            let mut ne: Expr = parse_quote!(match #recv { Ok(#pat) => #body, Err(__e) => Err(__e) });
                            self.visit_expr_mut(&mut ne);
                            *e = ne;
                            return;
                        }
                    }
                }
            }
        }
        // R31: Result::or_else / Result::map_err... with a closure that performs I/O (definition of the combinator):
        //   X.or_else(|p| BODY)  ->  match X { Ok(v) => Ok(v), Err(p) => BODY }
        //   X.map(|p| BODY)      ->  match X { Ok(p) => Ok(BODY), Err(e) => Err(e) }      (only when BODY performs I/O)
        if (self.o.world || self.o.worldself) {
            if let Expr::MethodCall(mc) = e {
                let m = mc.method.to_string();
                if (m == "or_else" || m == "map" || m == "and_then" || m == "filter") && mc.args.len() == 1 && !(m == "and_then" && self.o.r28) {
                    if let Expr::Closure(c) = &mc.args[0] {
                        let bt = c.body.to_token_stream().to_string();
                        let io = bt.contains("fs ::") || self.o.worldfns.iter().any(|f| bt.contains(&format!("{} (", f)) || bt.contains(&format!("{} ::", f)))
                            || self.o.worldm.iter().any(|f| bt.contains(&format!(". {} (", f)));
                        if c.inputs.len() == 1 && io {
                            let recv = (*mc.receiver).clone(); let pat = c.inputs[0].clone(); let body = (*c.body).clone();
                            // `optmap`: in this take, map/filter with an I/O closure are Option's (R32), not Result's
                            self.bump(if m == "filter" || (m == "map" && self.o.optmap) { "R32" } else { "R31" });
                            let mut ne: Expr = match m.as_str() {
                                "or_else" => parse_quote!(match #recv { Ok(__v) => Ok(__v), Err(#pat) => #body }),
                                "map" if self.o.optmap => parse_quote!(match #recv { Some(#pat) => Some(#body), None => None }),
                                "map" => parse_quote!(match #recv { Ok(#pat) => Ok(#body), Err(__e) => Err(__e) }),
                                // Option::filter(|p| BODY): the predicate sees a reference to the value
                                "filter" => parse_quote!(match #recv { Some(__v) => { let #pat = &__v; if #body { Some(__v) } else { None } }, None => None }),
                                _ => parse_quote!(match #recv { Ok(#pat) => #body, Err(__e) => Err(__e) }),
                            };
                            self.visit_expr_mut(&mut ne);
                            *e = ne;
                            return;
                        }
                    }
                }
            }
        }
        // R34: `E.fold(INIT, |acc, item| BODY)` -> the definition of Iterator::fold:
        //      `{ let mut __acc = INIT; let mut __it = E; loop { match __it.next() { Some(item) => { let acc = __acc; __acc = BODY; } None => { break; } } } __acc }`
        if let Expr::MethodCall(mc) = e {
            // (receiver = a plain iterator VALUE, e.g. a generic `I: Iterator` parameter; folds over `X.iter()` of a collection are R10)
            if mc.method == "fold" && mc.args.len() == 2 && matches!(*mc.receiver, Expr::Path(_)) {
                if let Expr::Closure(c) = &mc.args[1] {
                    if c.inputs.len() == 2 {
                        let recv = (*mc.receiver).clone(); let init = mc.args[0].clone();
                        let acc = c.inputs[0].clone(); let item = c.inputs[1].clone(); let body = (*c.body).clone();
                        self.bump("R34");
                        let mut ne: Expr = parse_quote!({ let mut __acc = #init; let mut __it = #recv; loop { match __it.next() { Some(#item) => { let #acc = __acc; __acc = #body; } None => { break; } } } __acc });
                        self.visit_expr_mut(&mut ne);
                        *e = ne;
                        return;
                    }
                }
            }
        }
        // R36: `X.iter().filter(P)` -> `shim_filter(&X, P)`; R37: `E.max_by_key(K)` -> `shim_max_by_key(E, K)` (one shim each with the documented
        //      semantics of the std adapter; provided trait methods cannot be given an assume_specification)
        if let Expr::MethodCall(mc) = e {
            if mc.method == "filter" && mc.args.len() == 1 && matches!(mc.args[0], Expr::Closure(_)) {
                if let Expr::MethodCall(m2) = &*mc.receiver {
                    if m2.method == "iter" && m2.args.is_empty() {
                        let x = (*m2.receiver).clone(); let f = mc.args[0].clone();
                        self.bump("R36");
                        let mut ne: Expr = parse_quote!(shim_filter(&#x, #f));
                        if let Expr::Call(call) = &mut ne { for a in call.args.iter_mut() { if matches!(a, Expr::Closure(_)) { self.closure_label = Some("filter".to_string()); } self.visit_expr_mut(a); self.closure_label = None; } }
                        *e = ne;
                        return;
                    }
                }
            }
            if mc.method == "max_by_key" && mc.args.len() == 1 {
                let x = (*mc.receiver).clone(); let f = mc.args[0].clone();
                self.bump("R37");
                let mut ne: Expr = parse_quote!(shim_max_by_key(#x, #f));
                if let Expr::Call(call) = &mut ne { for a in call.args.iter_mut() { if matches!(a, Expr::Closure(_)) { self.closure_label = Some("max_by_key".to_string()); } self.visit_expr_mut(a); self.closure_label = None; } }
                *e = ne;
                return;
            }
        }
        // R39: `X.iter().map(F).collect::<Result<Vec<_>, _>>()` -> `map_collect_result(&X, F)` (one shim with the semantics of the chain: F applied to the
        //      elements in order, the first Err returned, otherwise all Ok values in order)
        if let Expr::MethodCall(mc) = e {
            if mc.method == "collect" && mc.turbofish.as_ref().map(|t| t.to_token_stream().to_string().replace(' ', "")).as_deref() == Some("::<Result<Vec<_>,_>>") {
                if let Expr::MethodCall(m2) = &*mc.receiver {
                    if m2.method == "map" && m2.args.len() == 1 {
                        if let Expr::MethodCall(m3) = &*m2.receiver {
                            if m3.method == "iter" && m3.args.is_empty() {
                                let x = (*m3.receiver).clone(); let f = m2.args[0].clone();
                                self.bump("R39");
                                let mut ne: Expr = parse_quote!(map_collect_result(&#x, #f));
                                if let Expr::Call(call) = &mut ne { for a in call.args.iter_mut() { if matches!(a, Expr::Closure(_)) { self.closure_label = Some("map".to_string()); } self.visit_expr_mut(a); self.closure_label = None; } }
                                *e = ne;
                                return;
                            }
                        }
                    }
                }
            }
        }
        // R33: `X.split(C).map(F).collect::<Option<Vec<_>>>()` -> `split_map_collect_opt(&X, C, F)` (one shim with the semantics of the chain:
        //      F applied to the pieces in order, None as soon as one piece gives None)
        if let Expr::MethodCall(mc) = e {
            if mc.method == "collect" && mc.turbofish.as_ref().map(|t| t.to_token_stream().to_string().replace(' ', "")).as_deref() == Some("::<Option<Vec<_>>>") {
                if let Expr::MethodCall(m2) = &*mc.receiver {
                    if m2.method == "map" && m2.args.len() == 1 {
                        if let Expr::MethodCall(m3) = &*m2.receiver {
                            if m3.method == "split" && m3.args.len() == 1 {
                                let x = (*m3.receiver).clone(); let c = m3.args[0].clone(); let f = m2.args[0].clone();
                                self.bump("R33");
                                let mut ne: Expr = parse_quote!(split_map_collect_opt(&#x, #c, #f));
                                if let Expr::Call(call) = &mut ne { for a in call.args.iter_mut() { if matches!(a, Expr::Closure(_)) { self.closure_label = Some("map".to_string()); } self.visit_expr_mut(a); self.closure_label = None; } }
                                *e = ne;
                                return;
                            }
                        }
                    }
                }
            }
        }
        // R29: Result::unwrap_or_else with a closure that terminates the process (definition of unwrap_or_else);
        // keeps the exit in the enclosing function, where the process state is in scope
        if let Expr::MethodCall(mc) = e {
            if mc.method == "unwrap_or_else" && mc.args.len() == 1 {
                if let Expr::Closure(c) = &mc.args[0] {
                    if c.inputs.len() == 1 && (c.body.to_token_stream().to_string().contains("exit (") || (self.o.vpanic && c.body.to_token_stream().to_string().contains("panic !"))) {
                        let recv = (*mc.receiver).clone(); let pat = c.inputs[0].clone(); let body = (*c.body).clone();
                        self.bump("R29");
                        let mut ne: Expr = parse_quote!(match #recv { Ok(__v) => __v, Err(#pat) => #body });
                        self.visit_expr_mut(&mut ne);
                        *e = ne;
                        return;
                    }
                }
            }
        }
        // children first (closure arguments of a method call get that method's name as their label)
        if let Expr::MethodCall(mc) = e {
            self.visit_expr_mut(&mut mc.receiver);
            let mname = mc.method.to_string();
            for a in mc.args.iter_mut() {
                if matches!(a, Expr::Closure(_)) { self.closure_label = Some(mname.clone()); }
                self.visit_expr_mut(a);
                self.closure_label = None;
            }
        } else {
            visit_mut::visit_expr_mut(self, e);
        }
        match e {
            Expr::Try(t) if self.o.qmark => {
                self.bump("R19");
                let inner = &t.expr;
                // `qexit K` anchor: a proof slot on the error path of the K-th `?` (source order, post-order of nesting)
                let k = { let e2 = self.closure_counts.entry("?qexit".to_string()).or_insert(0); let k = *e2; *e2 += 1; k };
                let m = format_ident!("__verif_qexit_{}", k);
                *e = parse_quote!(match #inner { Ok(__v) => __v, Err(__e) => { #m!(); return Err(QFrom::qfrom(__e)) } });
            }
            Expr::Call(c) => {
                // R14: call of a parenthesised field `(self.f)(a)` -> `self.f.call(a)`
                if let Expr::Paren(pe) = &*c.func {
                    if let Expr::Field(_) = &*pe.expr {
                        let recv = &pe.expr; let args = &c.args;
                        self.bump("R14");
                        *e = parse_quote!(#recv.call(#args));
                        return;
                    }
                }
                // R3 at call sites: explicit turbofish gets one `_` per generic that R3 added to the callee
                if let Expr::Path(p) = &mut *c.func {
                    if let Some(seg) = p.path.segments.last_mut() {
                        let name = seg.ident.to_string();
                        if let Some((_, n)) = self.o.r3calls.iter().find(|(f, _)| *f == name) {
                            if let syn::PathArguments::AngleBracketed(ab) = &mut seg.arguments {
                                for _ in 0..*n { ab.args.push(parse_quote!(_)); }
                                self.bump("R3");
                            }
                        }
                    }
                }
                // R26: String::from(x) -> string_from(x)
                if path_str(&c.func).as_deref() == Some("String::from") && c.args.len() == 1 {
                    let a = &c.args[0];
                    self.bump("R26");
                    *e = parse_quote!(string_from(#a));
                    return;
                }
                let last = path_last(&c.func);
                let full = path_str(&c.func);
                if let (Some(last), Some(full)) = (last, full) {
                    let segs: Vec<&str> = full.split("::").collect();
                    let n = segs.len();
                    let parent = if n >= 2 { segs[n - 2] } else { "" };
                    // std::os::unix::fs::symlink(original, link) -> world.fs_symlink(original, link) (R1)
                    if (self.o.world || self.o.worldself) && full == "std::os::unix::fs::symlink" {
                        self.bump("R1");
                        let args = &c.args;
                        let w = self.world_expr();
                        *e = parse_quote!(#w.fs_symlink(#args));
                        return;
                    }
                    if (self.o.world || self.o.worldself) && (parent == "fs" || parent == "env") && (n == 2 || (n == 3 && segs[0] == "std")) {
                        self.bump("R1");
                        let m = format_ident!("{}_{}", parent, last);
                        let args = &c.args;
                        let w = self.world_expr();
                        *e = parse_quote!(#w.#m(#args));
                        return;
                    }
                    if (self.o.world || self.o.worldself) && last == "exit" && n <= 3 {
                        let args = &c.args;
                        if self.closure_depth > 0 {
                            self.bump("R17");
                            *e = parse_quote!(exit_pure(#args));
                        } else {
                            self.bump("R1");
                            // every exit site states (in the overlay) the reason it claims; `exit`'s precondition checks it
                            let k = { let e2 = self.closure_counts.entry("?exit".to_string()).or_insert(0); let k = *e2; *e2 += 1; k };
                            let m = format_ident!("__verif_exit_reason_{}", k);
                            *e = parse_quote!(exit(world, #args, #m!()));
                        }
                        return;
                    }
                    if self.o.worldfns.iter().any(|f| *f == last || *f == full) {
                        self.bump("R1");
                        let w = self.world_expr();
                        c.args.insert(0, w);
                        // R30: an argument that may terminate the process (R29 result) is evaluated into a temporary first
                        // (left-to-right evaluation order is kept: the arguments before it are plain paths/references)
                        let idx = c.args.iter().position(|a| matches!(a, Expr::Match(_)) && a.to_token_stream().to_string().contains("exit ("));
                        if let Some(i) = idx {
                            if c.args.iter().take(i).all(|a| matches!(a, Expr::Path(_) | Expr::Reference(_))) {
                                self.bump("R30");
                                let arg = c.args[i].clone();
                                c.args[i] = parse_quote!(__arg);
                                let call = c.clone();
                                *e = parse_quote!({ let __arg = #arg; #call });
                            }
                        }
                        return;
                    }
                }
            }
            Expr::MethodCall(mc) => {
                let name = mc.method.to_string();
                // a method of the same name on a closure parameter (e.g. `|metadata| metadata.is_dir()`) is not a path query
                let recv_is_closure_param = match &*mc.receiver { Expr::Path(p) => p.path.get_ident().map(|i| self.closure_params.contains(&i.to_string())).unwrap_or(false), _ => false };
                // `X.file_type()?.is_dir()` / `X.metadata()?.is_file()`: the receiver is a FileType/Metadata value, not a path
                let recv_is_metadata = {
                    let mut r: &Expr = &mc.receiver;
                    loop { match r { Expr::Try(t) => r = &t.expr, Expr::Paren(p) => r = &p.expr, Expr::Reference(x) => r = &x.expr, _ => break } }
                    match r { Expr::MethodCall(m2) => { let n2 = m2.method.to_string(); ["file_type", "metadata", "symlink_metadata", "path_file_type", "path_metadata", "path_symlink_metadata", "permissions"].contains(&n2.as_str()) } _ => false }
                };
                if self.o.worldm.iter().any(|m| *m == name) && !recv_is_closure_param && !recv_is_metadata {
                    self.bump("R1");
                    let m = format_ident!("path_{}", name);
                    let recv = &mc.receiver; let args = &mc.args;
                    let w = self.world_expr();
                    *e = if args.is_empty() { parse_quote!(#w.#m(&#recv)) } else { parse_quote!(#w.#m(&#recv, #args)) };
                    return;
                }
                if self.o.worldfns.iter().any(|f| *f == name) {
                    self.bump("R1");
                    let w = self.world_expr();
                    mc.args.insert(0, w);
                    return;
                }
                // R9: eta-expand paths used as function values in combinator position
                if !self.o.noeta {
                    const COMB: [&str; 12] = ["map", "map_err", "and_then", "ok_or_else", "unwrap_or_else", "or_else", "filter", "filter_map", "map_or", "map_or_else", "then", "inspect_err"];
                    if COMB.contains(&name.as_str()) {
                        let mut bumped = 0;
                        for a in mc.args.iter_mut() {
                            if let Expr::Path(p) = a {
                                if p.path.segments.len() >= 2 || p.path.segments.last().map(|s| s.ident.to_string().chars().next().unwrap().is_uppercase()).unwrap_or(false) {
                                    let p2 = p.clone();
                                    self.closure_no += 1;
                                    let kk = { let e = self.closure_counts.entry(name.clone()).or_insert(0); let k = *e; *e += 1; k };
                                    let cname = format!("{}_{}", name, kk);
                                    self.closure_names.push(cname.clone());
                                    let hdr = format_ident!("__verif_closure_{}", cname);
                                    *a = parse_quote!(#hdr!(|__x| #p2(__x)));
                                    bumped += 1;
                                }
                            }
                        }
                        for _ in 0..bumped { self.bump("R9"); }
                    }
                }
                // R10: X.iter().fold(INIT, |a, x| BODY)
                if name == "fold" && mc.args.len() == 2 {
                    // the closure has been wrapped into __verif_closure_N!(..) already; unwrap it
                    let clos: Option<syn::ExprClosure> = match &mc.args[1] {
                        Expr::Macro(m) => syn::parse2::<syn::ExprClosure>(m.mac.tokens.clone()).ok(),
                        Expr::Closure(c) => Some(c.clone()),
                        _ => None,
                    };
                    if let Some(c) = clos {
                        if c.inputs.len() == 2 {
                            self.bump("R10");
                            let acc = &c.inputs[0]; let x = &c.inputs[1];
                            let body = &c.body; let init = &mc.args[0];
                            let recv0 = (*mc.receiver).clone();
                            let recv = match strip_iter(&recv0) { Some(x) => { self.bump("R11"); x } None => recv0 };
                            let n = self.loop_no; self.loop_no += 1; self.bump("R2");
                            let it = format_ident!("it{}", n);
                            let head = format_ident!("__verif_loop_head_{}", n);
                            let bstart = format_ident!("__verif_body_start_{}", n);
                            let bend = format_ident!("__verif_body_end_{}", n);
                            let after = format_ident!("__verif_after_loop_{}", n);
                            let before = format_ident!("__verif_before_loop_{}", n);
                            *e = parse_quote!({
                                let mut #acc = #init;
                                let mut #it = ShimIntoIter::shim_iter(#recv);
                                #before!();
                                loop {
                                    #head!();
                                    match #it.next() { None => break, Some(#x) => { #bstart!(); #acc = #body; #bend!(); } }
                                }
                                #after!();
                                #acc
                            });
                            return;
                        }
                    }
                    self.errors.push("UNSUPPORTED fold shape".into());
                }
            }
            // R6: if cfg!(..) {A} else {B}
            Expr::If(i) => {
                if let Expr::Macro(m) = &*i.cond {
                    if m.mac.path.is_ident("cfg") {
                        let decided = syn::parse2::<Meta>(m.mac.tokens.clone()).ok().and_then(|mm| cfg_eval(&mm));
                        match decided {
                            Some(true) => { self.bump("R6"); let b = i.then_branch.clone(); *e = Expr::Block(syn::ExprBlock { attrs: vec![], label: None, block: b }); }
                            Some(false) => {
                                self.bump("R6");
                                match &i.else_branch { Some((_, eb)) => { let eb = (**eb).clone(); *e = eb; } None => { *e = parse_quote!({}); } }
                            }
                            None => self.errors.push(format!("UNSUPPORTED cfg! predicate {}", m.mac.tokens)),
                        }
                    }
                }
            }
            // R20
            Expr::Index(ix) => {
                let recv = ix.expr.to_token_stream().to_string();
                if self.o.index_shim.iter().any(|r| *r == recv) {
                    self.bump("R20");
                    let r = &ix.expr; let i = &ix.index;
                    *e = parse_quote!((*#r.index_shim(#i)));
                }
            }
            // R14: (self.f)(a) -> self.f.call(a)
            Expr::Macro(m) => {
                let name = m.mac.path.segments.last().map(|s| s.ident.to_string()).unwrap_or_default();
                if name == "panic" && self.o.vpanic { self.bump("R40"); *e = parse_quote!(vpanic()); return; }
                let is_write = name == "write";
                if (name == "format" || is_write) && !self.o.nofmt {
                    // R5 (format!) / R5b (write!(f, ..) -> f.write_str(&<formatted>))
                    let parsed: syn::Result<syn::punctuated::Punctuated<Expr, syn::Token![,]>> =
                        m.mac.parse_body_with(syn::punctuated::Punctuated::parse_terminated);
                    let mut ok = false;
                    let mut replacement: Option<Expr> = None;
                    let mactoks = m.mac.tokens.to_string();
                    let mut target: Option<Expr> = None;
                    let parsed = parsed.map(|a| { let mut v: Vec<Expr> = a.into_iter().collect(); if is_write && !v.is_empty() { target = Some(v.remove(0)); } v });
                    if let Ok(args) = parsed {
                        if let Some(Expr::Lit(syn::ExprLit { lit: syn::Lit::Str(s), .. })) = args.first() {
                            if let Some(parts) = split_fmt(&s.value()) {
                                let mut pos = 1;
                                let mut pieces: Vec<Expr> = Vec::new();
                                let mut good = true;
                                for p in parts {
                                    match p {
                                        Ok(l) => { let ls = syn::LitStr::new(&l, s.span()); pieces.push(parse_quote!(fmt_lit(#ls))); }
                                        Err(name) => {
                                            if name.is_empty() {
                                                if pos < args.len() { let a = &args[pos]; pos += 1; pieces.push(parse_quote!(fmt_arg(&#a))); } else { good = false; }
                                            } else {
                                                let id = format_ident!("{}", name);
                                                pieces.push(parse_quote!(fmt_arg(&#id)));
                                            }
                                        }
                                    }
                                }
                                if good && pos == args.len() {
                                    self.bump("R5");
                                    let f = format_ident!("fmt_concat{}", pieces.len());
                                    replacement = Some(match &target { Some(t) => parse_quote!(#t.write_str(&#f(#(#pieces),*))), None => parse_quote!(#f(#(#pieces),*)) });
                                    ok = true;
                                }
                            }
                        }
                    }
                    if !ok { self.errors.push(format!("UNSUPPORTED format! shape: {}", mactoks)); }
                    if let Some(r) = replacement { *e = r; }
                }
            }
            _ => {}
        }
    }
}

// ---------------------------------------------------------------- printing
fn is_word(tt: &TokenTree) -> bool { matches!(tt, TokenTree::Ident(_) | TokenTree::Literal(_)) }

fn print_ts(ts: TokenStream, indent: usize, out: &mut String, in_brace: bool) {
    let toks: Vec<TokenTree> = ts.into_iter().collect();
    let mut prev: Option<&TokenTree> = None;
    let mut prev_joint = false;
    let n = toks.len();
    for (i, tt) in toks.iter().enumerate() {
        // spacing decision before tt
        let mut need_space = false;
        if let Some(p) = prev {
            need_space = true;
            if prev_joint { need_space = false; }
            match (p, tt) {
                (TokenTree::Punct(pp), _) if pp.as_char() == '.' && !prev_joint => need_space = false,
                (_, TokenTree::Punct(q)) if (q.as_char() == '.' || q.as_char() == ',' || q.as_char() == ';' || q.as_char() == '?') => need_space = false,
                (TokenTree::Punct(pp), _) if pp.as_char() == '!' && is_word(tt) => need_space = false,
                (TokenTree::Punct(pp), _) if (pp.as_char() == '&' || pp.as_char() == '#' || pp.as_char() == '\'') && !prev_joint => need_space = pp.as_char() == '&' && false,
                (TokenTree::Ident(_), TokenTree::Group(g)) if g.delimiter() == Delimiter::Parenthesis || g.delimiter() == Delimiter::Bracket => {
                    // call / index; keywords keep a space
                    let s = p.to_string();
                    need_space = matches!(s.as_str(), "if" | "match" | "while" | "for" | "in" | "return" | "let" | "mut" | "else" | "loop" | "as" | "fn" | "move" | "break" | "where" | "impl" | "dyn");
                }
                (TokenTree::Punct(pp), TokenTree::Group(g)) if pp.as_char() == '!' && g.delimiter() != Delimiter::Brace => need_space = false,
                (TokenTree::Punct(pp), TokenTree::Group(g)) if pp.as_char() == '>' && g.delimiter() == Delimiter::Parenthesis => need_space = false,
                (TokenTree::Punct(pp), _) if pp.as_char() == ':' && prev_joint => need_space = false,
                _ => {}
            }
            // `::` handling: no space around a joint colon pair
            if let TokenTree::Punct(q) = tt { if q.as_char() == ':' && q.spacing() == Spacing::Joint { need_space = false; } }
            if let TokenTree::Punct(pp) = p { if pp.as_char() == ':' && i >= 2 { if let TokenTree::Punct(pp2) = &toks[i - 2] { if pp2.as_char() == ':' && pp2.spacing() == Spacing::Joint { need_space = false; } } } }
        }
        if out.ends_with('\n') { out.push_str(&"    ".repeat(indent)); need_space = false; }
        if need_space { out.push(' '); }
        match tt {
            TokenTree::Group(g) => {
                match g.delimiter() {
                    Delimiter::Brace => {
                        let inner = g.stream();
                        if inner.is_empty() { out.push_str("{}"); }
                        else {
                            out.push_str("{\n");
                            print_ts(inner, indent + 1, out, true);
                            if !out.ends_with('\n') { out.push('\n'); }
                            out.push_str(&"    ".repeat(indent));
                            out.push('}');
                            // newline after a block that ends a statement/arm (next token is not , ; . ) else)
                            if in_brace {
                                let next = toks.get(i + 1);
                                let cont = match next {
                                    Some(TokenTree::Punct(q)) => matches!(q.as_char(), ',' | ';' | '.' | '?' | ')'),
                                    Some(TokenTree::Ident(id)) => id == "else",
                                    None => false,
                                    _ => false,
                                };
                                if !cont && i + 1 < n { out.push('\n'); }
                            }
                        }
                    }
                    Delimiter::Parenthesis => { out.push('('); print_ts(g.stream(), indent, out, false); out.push(')'); }
                    Delimiter::Bracket => { out.push('['); print_ts(g.stream(), indent, out, false); out.push(']'); }
                    Delimiter::None => { print_ts(g.stream(), indent, out, false); }
                }
                prev_joint = false;
            }
            TokenTree::Punct(p) => {
                out.push(p.as_char());
                prev_joint = p.spacing() == Spacing::Joint;
                if in_brace && p.as_char() == ';' { out.push('\n'); }
                if in_brace && p.as_char() == ',' {
                    // newline after match arms `=> expr,` : heuristic — only when previous group was not brace and we are in a match body
                    // keep simple: newline after commas directly inside braces
                    out.push('\n');
                }
            }
            other => { out.push_str(&other.to_string()); prev_joint = false; }
        }
        prev = Some(tt);
    }
}

fn pretty(ts: TokenStream) -> String {
    let mut s = String::new();
    print_ts(ts, 0, &mut s, true);
    s
}

// ---------------------------------------------------------------- item lookup
fn type_str(t: &Type) -> String { t.to_token_stream().to_string().replace(' ', "") }

enum Found { Fn(syn::Signature, syn::Block, syn::Visibility, Vec<(String, Type)>), Item(Item) }

fn find(items: &[Item], sel: &[&str]) -> Result<Found, String> {
    let head = sel[0].trim();
    let words: Vec<&str> = head.split_whitespace().collect();
    match words[0] {
        "mod" => {
            for it in items { if let Item::Mod(m) = it { if m.ident == words[1] { if let Some((_, inner)) = &m.content { return find(inner, &sel[1..]); } } } }
            Err(format!("module {} not found", words[1]))
        }
        "fn" => {
            for it in items { if let Item::Fn(f) = it { if f.sig.ident == words[1] { return Ok(Found::Fn(f.sig.clone(), (*f.block).clone(), f.vis.clone(), vec![])); } } }
            Err(format!("fn {} not found", words[1]))
        }
        "impl" => {
            // impl TYPE | impl TRAIT for TYPE   (compared on whitespace-free token text, generics included if given)
            let rest = head["impl".len()..].trim();
            let (tr, ty) = match rest.split_once(" for ") { Some((a, b)) => (Some(a.replace(' ', "")), b.replace(' ', "")), None => (None, rest.replace(' ', "")) };
            let fsel: Vec<&str> = sel.get(1).ok_or("impl selector needs :: fn NAME")?.split_whitespace().collect();
            let nth: usize = fsel.get(2).and_then(|s| s.parse().ok()).unwrap_or(0);
            let mut seen = 0;
            for it in items {
                if let Item::Impl(imp) = it {
                    if matches!(cfg_of(&imp.attrs), CfgDecision::Drop) { continue; }
                    let ity = type_str(&imp.self_ty);
                    let itr = imp.trait_.as_ref().map(|(_, p, _)| p.to_token_stream().to_string().replace(' ', ""));
                    let ty_ok = ity == ty || ity.split('<').next() == Some(ty.as_str());
                    let tr_ok = match (&tr, &itr) { (None, None) => true, (Some(a), Some(b)) => a == b || b.split('<').next() == Some(a.as_str()), _ => false };
                    if !(ty_ok && tr_ok) { continue; }
                    for ii in &imp.items {
                        if let ImplItem::Fn(f) = ii {
                            if f.sig.ident == fsel[1] {
                                if matches!(cfg_of(&f.attrs), CfgDecision::Drop) { continue; }
                                if seen == nth {
                                    let assoc: Vec<(String, Type)> = imp.items.iter().filter_map(|x| if let ImplItem::Type(t) = x { Some((t.ident.to_string(), t.ty.clone())) } else { None }).collect();
                                    // `impl T :: fn f :: nested fn g`: the fn item g declared inside f's body
                                    if let Some(nsel) = sel.get(2) {
                                        let w: Vec<&str> = nsel.split_whitespace().collect();
                                        if w.len() == 3 && w[0] == "nested" && w[1] == "fn" {
                                            for st in &f.block.stmts { if let Stmt::Item(Item::Fn(nf)) = st { if nf.sig.ident == w[2] { return Ok(Found::Fn(nf.sig.clone(), (*nf.block).clone(), syn::Visibility::Inherited, vec![])); } } }
                                            return Err(format!("nested fn {} not found in {}", w[2], fsel[1]));
                                        }
                                    }
                                    return Ok(Found::Fn(f.sig.clone(), f.block.clone(), f.vis.clone(), assoc));
                                }
                                seen += 1;
                            }
                        }
                    }
                }
            }
            Err(format!("{} :: {} not found", head, sel[1]))
        }
        "trait" => {
            let fsel: Vec<&str> = sel.get(1).ok_or("trait selector needs :: fn NAME")?.split_whitespace().collect();
            for it in items {
                if let Item::Trait(t) = it {
                    if t.ident == words[1] {
                        for ti in &t.items {
                            if let TraitItem::Fn(f) = ti {
                                if f.sig.ident == fsel[1] {
                                    if let Some(b) = &f.default { return Ok(Found::Fn(f.sig.clone(), b.clone(), syn::Visibility::Inherited, vec![])); }
                                    return Err(format!("trait fn {} has no default body", fsel[1]));
                                }
                            }
                        }
                    }
                }
            }
            Err(format!("{} :: {} not found", head, sel[1]))
        }
        "enum" | "struct" | "const" | "type" | "static" => {
            for it in items {
                let (kind, name, attrs): (&str, String, &[Attribute]) = match it {
                    Item::Enum(e) => ("enum", e.ident.to_string(), &e.attrs),
                    Item::Struct(e) => ("struct", e.ident.to_string(), &e.attrs),
                    Item::Const(e) => ("const", e.ident.to_string(), &e.attrs),
                    Item::Type(e) => ("type", e.ident.to_string(), &e.attrs),
                    Item::Static(e) => ("static", e.ident.to_string(), &e.attrs),
                    _ => continue,
                };
                if kind == words[0] && name == words[1] {
                    if matches!(cfg_of(attrs), CfgDecision::Drop) { continue; }
                    return Ok(Found::Item(it.clone()));
                }
            }
            Err(format!("{} {} not found", words[0], words[1]))
        }
        other => Err(format!("unknown selector kind {other}")),
    }
}

// macro_rules instantiation: `macrofn NAME :: impl TRAIT for $name :: fn F` with mac_args=name;regex...
// Finds `macro_rules! NAME`, takes its (single) rule, substitutes `$ident` metavariables by the
// textual arguments given in mac_args (k:v pairs) and then looks up the selector in the expansion.
fn expand_macro_rules(items: &[Item], name: &str, args: &[String]) -> Result<Vec<Item>, String> {
    for it in items {
        if let Item::Macro(m) = it {
            if m.mac.path.is_ident("macro_rules") && m.ident.as_ref().map(|i| i == name).unwrap_or(false) {
                // tokens: (pattern) => { body } ; ...   take the first rule's body
                let toks: Vec<TokenTree> = m.mac.tokens.clone().into_iter().collect();
                let mut body: Option<TokenStream> = None;
                for (i, t) in toks.iter().enumerate() {
                    if let TokenTree::Punct(p) = t { if p.as_char() == '>' && i > 0 {
                        if let Some(TokenTree::Group(g)) = toks.get(i + 1) { body = Some(g.stream()); break; }
                    } }
                }
                let body = body.ok_or("macro body not found")?;
                let mut map = BTreeMap::new();
                for a in args { if let Some((k, v)) = a.split_once(':') { map.insert(k.to_string(), v.to_string()); } }
                let substituted = subst(body, &map)?;
                let file: syn::File = syn::parse2(substituted).map_err(|e| format!("macro expansion does not parse as items: {e}"))?;
                return Ok(file.items);
            }
        }
    }
    Err(format!("macro_rules! {name} not found"))
}
fn subst(ts: TokenStream, map: &BTreeMap<String, String>) -> Result<TokenStream, String> {
    let toks: Vec<TokenTree> = ts.into_iter().collect();
    let mut out = TokenStream::new();
    let mut i = 0;
    while i < toks.len() {
        match &toks[i] {
            TokenTree::Punct(p) if p.as_char() == '$' => {
                match toks.get(i + 1) {
                    Some(TokenTree::Ident(id)) if id != "crate" => {
                        let k = id.to_string();
                        if let Some(v) = map.get(&k) {
                            let t: TokenStream = v.parse().map_err(|_| format!("bad macro arg {v}"))?;
                            out.extend(t);
                        } else {
                            // metavariable of a nested macro_rules!: left as it is
                            out.extend(std::iter::once(toks[i].clone()));
                            out.extend(std::iter::once(toks[i + 1].clone()));
                        }
                        i += 2; continue;
                    }
                    Some(TokenTree::Ident(_)) => { out.extend(quote!(crate)); i += 2; continue; }
                    Some(TokenTree::Group(_)) => {
                        // repetition `$( ... )*` : only the `$(#[$type_attributes])*` attribute repetition occurs; drop it
                        i += 2;
                        if let Some(TokenTree::Punct(q)) = toks.get(i) { if q.as_char() == '*' || q.as_char() == '+' || q.as_char() == '?' { i += 1; } }
                        continue;
                    }
                    _ => return Err("stray $ in macro body".into()),
                }
            }
            TokenTree::Group(g) => {
                let inner = subst(g.stream(), map)?;
                let mut ng = proc_macro2::Group::new(g.delimiter(), inner);
                ng.set_span(g.span());
                out.extend(std::iter::once(TokenTree::Group(ng)));
            }
            t => out.extend(std::iter::once(t.clone())),
        }
        i += 1;
    }
    Ok(out)
}

// metavariables of the first rule of a macro_rules!, in order, ignoring those inside `$( ... )` repetitions
fn macro_vars(items: &[Item], name: &str) -> Option<Vec<String>> {
    for it in items {
        if let Item::Macro(m) = it {
            if m.mac.path.is_ident("macro_rules") && m.ident.as_ref().map(|i| i == name).unwrap_or(false) {
                let toks: Vec<TokenTree> = m.mac.tokens.clone().into_iter().collect();
                if let Some(TokenTree::Group(g)) = toks.first() {
                    let pt: Vec<TokenTree> = g.stream().into_iter().collect();
                    let mut out = vec![]; let mut i = 0;
                    while i < pt.len() {
                        if let TokenTree::Punct(p) = &pt[i] { if p.as_char() == '$' {
                            match pt.get(i + 1) {
                                Some(TokenTree::Ident(id)) => { out.push(id.to_string()); i += 2; continue; }
                                Some(TokenTree::Group(_)) => { i += 2; continue; }
                                _ => {}
                            }
                        } }
                        i += 1;
                    }
                    return Some(out);
                }
            }
        }
    }
    None
}
// arguments of one invocation: top-level comma separated items with leading `#[..]` attributes removed
fn invocation_args(ts: TokenStream) -> Vec<String> {
    let mut items: Vec<Vec<TokenTree>> = vec![vec![]];
    for t in ts { match &t { TokenTree::Punct(p) if p.as_char() == ',' => items.push(vec![]), _ => items.last_mut().unwrap().push(t) } }
    let mut out = vec![];
    for it in items {
        let mut i = 0;
        while i + 1 < it.len() {
            if let (TokenTree::Punct(p), TokenTree::Group(g)) = (&it[i], &it[i + 1]) { if p.as_char() == '#' && g.delimiter() == Delimiter::Bracket { i += 2; continue; } }
            break;
        }
        let rest: TokenStream = it[i..].iter().cloned().collect();
        if !rest.is_empty() { out.push(rest.to_string()); }
    }
    out
}
fn find_invocation_args(items: &[Item], name: &str, vars: &[String], key: &(String, String)) -> Option<Vec<String>> {
    for it in items {
        match it {
            Item::Macro(m) if m.mac.path.segments.last().map(|s| s.ident == name).unwrap_or(false) && m.ident.is_none() => {
                let args = invocation_args(m.mac.tokens.clone());
                if args.len() == vars.len() {
                    if let Some(pos) = vars.iter().position(|v| *v == key.0) { if args[pos].replace(' ', "") == key.1 { return Some(vars.iter().zip(args.iter()).map(|(v, a)| format!("{v}:{a}")).collect()); } }
                }
            }
            Item::Mod(m) => { if let Some((_, inner)) = &m.content { if let Some(r) = find_invocation_args(inner, name, vars, key) { return Some(r); } } }
            _ => {}
        }
    }
    None
}
// list macro invocations: `invocations NAME` -> prints each invocation's raw argument token text
fn list_invocations(items: &[Item], name: &str, out: &mut Vec<String>) {
    for it in items {
        match it {
            Item::Macro(m) if m.mac.path.segments.last().map(|s| s.ident == name).unwrap_or(false) && m.ident.is_none() => {
                out.push(m.mac.tokens.to_string());
            }
            Item::Mod(m) => { if let Some((_, inner)) = &m.content { list_invocations(inner, name, out); } }
            _ => {}
        }
    }
}

// R23: a top-level `let x = ..;` that shadows parameter `x` is alpha-renamed to `x__1` (so contracts can still name the parameter)
struct IdentRename { from: String, to: String }
impl VisitMut for IdentRename {
    fn visit_expr_path_mut(&mut self, p: &mut syn::ExprPath) {
        if p.qself.is_none() && p.path.is_ident(&self.from) { let id = format_ident!("{}", self.to); p.path = parse_quote!(#id); }
    }
    fn visit_macro_mut(&mut self, m: &mut syn::Macro) {
        let from = self.from.clone(); let to = self.to.clone();
        fn go(ts: TokenStream, from: &str, to: &str) -> TokenStream {
            ts.into_iter().map(|t| match t {
                TokenTree::Ident(ref i) if i == from => TokenTree::Ident(proc_macro2::Ident::new(to, i.span())),
                TokenTree::Group(g) => { let mut ng = proc_macro2::Group::new(g.delimiter(), go(g.stream(), from, to)); ng.set_span(g.span()); TokenTree::Group(ng) }
                other => other,
            }).collect()
        }
        m.tokens = go(m.tokens.clone(), &from, &to);
    }
}
// R24: `crate::a::b::Item` paths lose their module prefix (everything lives in one generated file);
// `crate::Result` (libcnb's alias) becomes `CrateResult` so it cannot be confused with std's Result
struct CratePaths { n: usize, modfn: Vec<(String, String)> }
impl VisitMut for CratePaths {
    fn visit_path_mut(&mut self, p: &mut syn::Path) {
        // `::std::..`, `::fancy_regex::..` (absolute paths used inside macro_rules bodies) resolve against the shim modules
        if p.leading_colon.is_some() { p.leading_colon = None; self.n += 1; }
        if p.leading_colon.is_none() && p.segments.len() >= 2 && (p.segments[0].ident == "crate" || p.segments[0].ident == "super") {
            // `modfn=a::b::f:new_name`: a module-qualified item that shares its name with another extracted item keeps a distinct name
            let full = p.segments.iter().map(|s| s.ident.to_string()).collect::<Vec<_>>().join("::");
            if let Some((_, to)) = self.modfn.iter().find(|(k, _)| full.ends_with(k.as_str())) {
                let mut last = p.segments.last().unwrap().clone();
                last.ident = format_ident!("{}", to);
                let mut np = syn::punctuated::Punctuated::new(); np.push(last); p.segments = np; self.n += 1;
                visit_mut::visit_path_mut(self, p);
                return;
            }
            let mut segs: Vec<syn::PathSegment> = p.segments.iter().cloned().collect();
            segs.remove(0);
            // drop module segments (lower-case, not the last one)
            while segs.len() > 1 && segs[0].ident.to_string().chars().next().map(|c| c.is_lowercase()).unwrap_or(false) { segs.remove(0); }
            if segs.len() == 1 && segs[0].ident == "Result" { segs[0].ident = format_ident!("CrateResult"); }
            let mut np = syn::punctuated::Punctuated::new();
            for sg in segs { np.push(sg); }
            p.segments = np;
            self.n += 1;
        }
        visit_mut::visit_path_mut(self, p);
    }
}
// after_call anchors: after the statement (or block tail) that contains the K-th call of a listed function
struct CallFinder<'a> { names: &'a [String], found: Vec<String> }
impl<'a> syn::visit::Visit<'a> for CallFinder<'a> {
    fn visit_expr_call(&mut self, c: &'a syn::ExprCall) {
        if let Some(n) = path_last(&c.func) { if self.names.contains(&n) { self.found.push(n); } }
        syn::visit::visit_expr_call(self, c);
    }
    fn visit_expr_method_call(&mut self, c: &'a syn::ExprMethodCall) {
        let n = c.method.to_string();
        if self.names.contains(&n) { self.found.push(n); }
        syn::visit::visit_expr_method_call(self, c);
    }
    fn visit_block(&mut self, _b: &'a syn::Block) { /* calls inside nested blocks get their own anchors */ }
    fn visit_expr_closure(&mut self, _c: &'a syn::ExprClosure) {}
    fn visit_arm(&mut self, a: &'a syn::Arm) {
        // arm bodies that are blocks are handled as blocks; a bare expression arm body is handled by ArmWrap first
        if let Some((_, g)) = &a.guard { self.visit_expr(g); }
        if !matches!(*a.body, Expr::Block(_)) { self.visit_expr(&a.body); }
    }
}
struct Anchors { names: Vec<String>, lets: Vec<String>, counts: BTreeMap<String, usize>, tmp: usize }
impl Anchors {
    fn calls_in_stmt(&self, st: &Stmt) -> Vec<String> {
        use syn::visit::Visit;
        let mut cf = CallFinder { names: &self.names, found: vec![] };
        match st {
            Stmt::Local(l) => { if let Some(init) = &l.init { cf.visit_expr(&init.expr); } }
            Stmt::Expr(e, _) => cf.visit_expr(e),
            _ => {}
        }
        cf.found
    }
}
struct ArmWrap { n: usize }
impl VisitMut for ArmWrap {
    fn visit_arm_mut(&mut self, a: &mut syn::Arm) {
        // give every arm a block body so that anchors have a place to go; `arm N` anchor at its start (pre-order)
        if !matches!(*a.body, Expr::Block(_)) {
            let b = a.body.clone();
            a.body = Box::new(parse_quote!({ #b }));
            a.comma = None;
        }
        let k = self.n; self.n += 1;
        if let Expr::Block(eb) = &mut *a.body {
            let m = format_ident!("__verif_arm_{}", k);
            eb.block.stmts.insert(0, parse_quote!(#m!();));
        }
        visit_mut::visit_arm_mut(self, a);
    }
}
impl VisitMut for Anchors {
    fn visit_block_mut(&mut self, b: &mut syn::Block) {
        let n = b.stmts.len();
        let mut out: Vec<Stmt> = Vec::new();
        for (i, mut st) in b.stmts.drain(..).enumerate() {
            // direct calls of this statement first (source order), nested blocks afterwards
            let calls = self.calls_in_stmt(&st);
            let mut markers: Vec<Stmt> = Vec::new();
            for c in calls {
                let k = { let e = self.counts.entry(c.clone()).or_insert(0); let k = *e; *e += 1; k };
                let m = format_ident!("__verif_after_call_{}_{}", c, k);
                markers.push(parse_quote!(#m!();));
            }
            if let Stmt::Local(l) = &st {
                if let syn::Pat::Ident(pi) = &l.pat {
                    let nm = pi.ident.to_string();
                    if self.lets.contains(&nm) {
                        let key = format!("let:{nm}");
                        let k = { let e = self.counts.entry(key).or_insert(0); let k = *e; *e += 1; k };
                        let m = format_ident!("__verif_after_let_{}_{}", nm, k);
                        markers.push(parse_quote!(#m!();));
                    }
                }
            }
            self.visit_stmt_mut(&mut st);
            let is_tail = i + 1 == n && matches!(st, Stmt::Expr(_, None));
            if is_tail && !markers.is_empty() {
                if let Stmt::Expr(e, None) = st {
                    let t = format_ident!("__t{}", self.tmp); self.tmp += 1;
                    out.push(parse_quote!(let #t = #e;));
                    // the driver substitutes `__tail` in the section text by the temporary's name
                    let tm = format_ident!("__verif_tailname_{}", t);
                    out.push(parse_quote!(#tm!();));
                    out.extend(markers);
                    out.push(Stmt::Expr(parse_quote!(#t), None));
                }
            } else {
                out.push(st);
                out.extend(markers);
            }
        }
        b.stmts = out;
    }
}
// R21: `mut self` receiver -> `self` + `let mut __self = self;` with `self` renamed in the body
struct SelfRename;
impl VisitMut for SelfRename {
    fn visit_expr_path_mut(&mut self, p: &mut syn::ExprPath) {
        if p.qself.is_none() && p.path.is_ident("self") { p.path = parse_quote!(__self); }
    }
    fn visit_macro_mut(&mut self, m: &mut syn::Macro) {
        // macro arguments are token streams: rename there too
        let toks: TokenStream = m.tokens.clone().into_iter().map(|t| match t {
            TokenTree::Ident(ref i) if i == "self" => TokenTree::Ident(proc_macro2::Ident::new("__self", i.span())),
            other => other,
        }).collect();
        m.tokens = toks;
    }
}
// R25: `Self::Assoc` inside a trait impl -> the type the impl binds it to
struct AssocRepl<'a> { assoc: &'a [(String, Type)], n: usize }
impl<'a> VisitMut for AssocRepl<'a> {
    fn visit_type_mut(&mut self, t: &mut Type) {
        if let Type::Path(p) = t {
            if p.qself.is_none() && p.path.segments.len() == 2 && p.path.segments[0].ident == "Self" {
                if let Some((_, ty)) = self.assoc.iter().find(|(n, _)| p.path.segments[1].ident == n) { *t = ty.clone(); self.n += 1; return; }
            }
        }
        visit_mut::visit_type_mut(self, t);
    }
    fn visit_path_mut(&mut self, p: &mut syn::Path) {
        if p.segments.len() >= 3 && p.segments[0].ident == "Self" {
            if let Some((_, Type::Path(tp))) = self.assoc.iter().find(|(n, _)| p.segments[1].ident == n) {
                let mut segs = tp.path.segments.clone();
                for sgm in p.segments.iter().skip(2) { segs.push(sgm.clone()); }
                p.segments = segs; self.n += 1;
            }
        }
        visit_mut::visit_path_mut(self, p);
    }
}
struct SelfRepl { ty: Type }
impl VisitMut for SelfRepl {
    fn visit_type_mut(&mut self, t: &mut Type) {
        if let Type::Path(p) = t { if p.qself.is_none() && p.path.is_ident("Self") { *t = self.ty.clone(); return; } }
        visit_mut::visit_type_mut(self, t);
    }
    fn visit_path_mut(&mut self, p: &mut syn::Path) {
        if p.segments.len() >= 2 && p.segments[0].ident == "Self" {
            if let Type::Path(tp) = &self.ty {
                let mut segs = tp.path.segments.clone();
                for s in p.segments.iter().skip(1) { segs.push(s.clone()); }
                p.segments = segs;
            }
        }
        visit_mut::visit_path_mut(self, p);
    }
}

fn emit_fn(key: &str, file: &str, mut sig: syn::Signature, mut block: syn::Block, vis: syn::Visibility, o: &Opts, assoc: &[(String, Type)]) {
    let start = sig.fn_token.span.start().line;
    let end = block.brace_token.span.close().end().line;
    let mut rw = Rw { o: o.clone(), loop_no: 0, closure_no: 0, closure_depth: 0, counts: BTreeMap::new(), errors: vec![], removed_prints: 0, nested_fns: vec![], closure_params: vec![], closure_label: None, closure_counts: BTreeMap::new(), closure_names: vec![] };
    if !assoc.is_empty() {
        let mut ar = AssocRepl { assoc, n: 0 };
        ar.visit_signature_mut(&mut sig);
        ar.visit_block_mut(&mut block);
    }
    if let Some(st) = &o.selfty {
        let ty: Type = syn::parse_str(st).expect("selfty");
        let mut sr = SelfRepl { ty };
        sr.visit_signature_mut(&mut sig);
        sr.visit_block_mut(&mut block);
    }
    {
        let mut cp = CratePaths { n: 0, modfn: o.modfn.clone() };
        cp.visit_signature_mut(&mut sig);
        cp.visit_block_mut(&mut block);
        for _ in 0..cp.n { rw.bump("R24"); }
    }
    if let Some(FnArg::Receiver(r)) = sig.inputs.first_mut() {
        if r.reference.is_none() && r.mutability.is_some() {
            r.mutability = None;
            SelfRename.visit_block_mut(&mut block);
            block.stmts.insert(0, parse_quote!(let mut __self = self;));
            rw.bump("R21");
        }
    }
    // R18 for fn parameters: `_: T` -> `_uN: T`
    for (pi, a) in sig.inputs.iter_mut().enumerate() {
        if let FnArg::Typed(pt) = a { if matches!(*pt.pat, syn::Pat::Wild(_)) { let id = format_ident!("_u{}", pi); pt.pat = Box::new(parse_quote!(#id)); rw.bump("R18"); } }
    }
    // R3: impl Trait params -> named generics
    let mut k: usize = 0;
    let mut extra: Vec<TokenStream> = vec![];
    for a in sig.inputs.iter_mut() {
        if let FnArg::Typed(pt) = a {
            // `mut self`-style by-value patterns stay
            let mut ty = (*pt.ty).clone();
            let mut refprefix: Option<TokenStream> = None;
            if let Type::Reference(r) = &ty { if let Type::ImplTrait(_) = &*r.elem { let lt = &r.lifetime; let m = &r.mutability; refprefix = Some(quote!(& #lt #m)); ty = (*r.elem).clone(); } }
            if let Type::ImplTrait(it) = &ty {
                k += 1; rw.bump("R3");
                let g = format_ident!("T{}", k);
                let bounds = &it.bounds;
                extra.push(quote!(#g: #bounds));
                pt.ty = Box::new(match refprefix { Some(p) => syn::parse2(quote!(#p #g)).unwrap(), None => parse_quote!(#g) });
            }
            // R4: &dyn Fn(..) -> R  =>  &Fk
            if o.dynfn {
                if let Type::Reference(r) = &*pt.ty {
                    if let Type::TraitObject(to) = &*r.elem {
                        k += 1; rw.bump("R4");
                        let g = format_ident!("F{}", k);
                        let bounds = &to.bounds;
                        // `?Sized`: the generic may still be instantiated with the trait object the real signature names
                        extra.push(quote!(#g: #bounds + ?Sized));
                        pt.ty = Box::new(parse_quote!(&#g));
                    }
                }
            }
        }
    }
    for g in extra { sig.generics.params.push(syn::parse2(g).unwrap()); }
    // R23
    {
        let params: Vec<String> = sig.inputs.iter().filter_map(|a| if let FnArg::Typed(pt) = a { if let syn::Pat::Ident(pi) = &*pt.pat { Some(pi.ident.to_string()) } else { None } } else { None }).collect();
        let n = block.stmts.len();
        for i in 0..n {
            let shadow: Option<String> = if let Stmt::Local(l) = &block.stmts[i] {
                if let syn::Pat::Ident(pi) = &l.pat { let nm = pi.ident.to_string(); if params.contains(&nm) { Some(nm) } else { None } } else { None }
            } else { None };
            if let Some(nm) = shadow {
                let to = format!("{}__1", nm);
                if let Stmt::Local(l) = &mut block.stmts[i] { if let syn::Pat::Ident(pi) = &mut l.pat { pi.ident = format_ident!("{}", to); } }
                let mut ir = IdentRename { from: nm.clone(), to };
                for j in (i + 1)..n { ir.visit_stmt_mut(&mut block.stmts[j]); }
                rw.bump("R23");
            }
        }
    }
    if !o.anchors.is_empty() || !o.letanchors.is_empty() {
        if !o.anchors.is_empty() { ArmWrap { n: 0 }.visit_block_mut(&mut block); }
        let mut an = Anchors { names: o.anchors.clone(), lets: o.letanchors.clone(), counts: BTreeMap::new(), tmp: 0 };
        an.visit_block_mut(&mut block);
    }
    rw.visit_block_mut(&mut block);
    if o.anf {
        fn anf_expr(e: &mut Expr, lets: &mut Vec<Stmt>, k: &mut usize) {
            let args = match e { Expr::Call(c) => Some(&mut c.args), Expr::MethodCall(m) => Some(&mut m.args), _ => None };
            if let Some(args) = args {
                for a in args.iter_mut() {
                    let hoist = match &*a {
                        Expr::Call(_) | Expr::MethodCall(_) | Expr::Closure(_) => true,
                        Expr::Macro(m) => m.mac.path.get_ident().map(|i| i.to_string().starts_with("__verif_closure_")).unwrap_or(false),
                        _ => false,
                    };
                    if hoist {
                        anf_expr(a, lets, k);
                        let id = format_ident!("__a{}", *k); *k += 1;
                        let init = a.clone();
                        // a let-bound closure loses the expected `Fn(&X) -> Y` signature its call site gave it (needed for closures that
                        // return a reference): it is passed through the identity `__fn1`, which restates exactly that bound
                        let is_closure = !matches!(init, Expr::Call(_) | Expr::MethodCall(_));
                        if is_closure { lets.push(parse_quote!(let #id = __fn1(#init);)); } else { lets.push(parse_quote!(let #id = #init;)); }
                        *a = parse_quote!(#id);
                    }
                }
            }
        }
        if let Some(Stmt::Expr(tail, None)) = block.stmts.last().cloned() {
            let mut tail = tail; let mut lets: Vec<Stmt> = vec![]; let mut k = 0usize;
            anf_expr(&mut tail, &mut lets, &mut k);
            if !lets.is_empty() {
                for _ in 0..lets.len() { rw.bump("R38"); }
                block.stmts.pop();
                block.stmts.extend(lets);
                block.stmts.push(Stmt::Expr(tail, None));
            }
        }
    }
    // anchors after every top-level statement (not after the tail expression)
    {
        let n = block.stmts.len();
        let mut out: Vec<Stmt> = Vec::new();
        for (i, st) in block.stmts.drain(..).enumerate() {
            let is_tail = i + 1 == n && matches!(st, Stmt::Expr(_, None));
            out.push(st);
            if !is_tail {
                let m = format_ident!("__verif_stmt_{}", i);
                out.push(parse_quote!(#m!();));
            }
        }
        block.stmts = out;
    }
    // R1: world parameter
    if o.world {
        let pos = if matches!(sig.inputs.first(), Some(FnArg::Receiver(_))) { 1 } else { 0 };
        sig.inputs.insert(pos, parse_quote!(world: &mut World));
    }
    if o.wrap_exit {
        if let Some(Stmt::Expr(tail, None)) = block.stmts.last().cloned() {
            block.stmts.pop();
            block.stmts.push(parse_quote!(let __r = #tail;));
            block.stmts.push(parse_quote!(__verif_exit!();));
            block.stmts.push(Stmt::Expr(parse_quote!(__r), None));
        } else if matches!(sig.output, syn::ReturnType::Default) {
            block.stmts.push(parse_quote!(__verif_exit!();));
        }
    }
    let name = match &o.rename { Some(n) => format_ident!("{}", n), None => sig.ident.clone() };
    let generics = &sig.generics.params;
    let gen = if generics.is_empty() { quote!() } else { quote!(<#generics>) };
    let wherec = &sig.generics.where_clause;
    let inputs = &sig.inputs;
    let rname = format_ident!("{}", o.ret);
    let ret = match &sig.output { syn::ReturnType::Type(_, t) => { if matches!(**t, Type::Never(_)) { quote!(-> !) } else { quote!(-> (#rname: #t)) } }, _ => quote!() };
    let visq = if o.keep_vis { quote!(#vis) } else { quote!(pub) };
    let unsafety = &sig.unsafety;
    let head = quote!(#visq #unsafety fn #name #gen (#inputs) #ret #wherec);
    let mut text = pretty(head);
    text.push_str("\n__VERIF_CONTRACT__\n");
    text.push_str(&pretty(block.to_token_stream()));
    text.push('\n');
    println!("@@ITEM {key}");
    let rws: Vec<String> = rw.counts.iter().map(|(k, v)| format!("{k}:{v}")).collect();
    println!("@@META file={file} line_start={start} line_end={end} loops={} closures={} rewrites={} nested={}",
        rw.loop_no, rw.closure_names.join(";"), rws.join(","), rw.nested_fns.join(","));
    for e in &rw.errors { println!("@@UNSUPPORTED {e}"); }
    println!("@@TEXT");
    print!("{text}");
    println!("@@END");
}

struct StripDerive { derives: Vec<String> }
fn strip_item_attrs(attrs: &mut Vec<Attribute>, derives: &mut Vec<String>) {
    for a in attrs.iter() {
        if a.path().is_ident("derive") {
            if let Meta::List(l) = &a.meta { derives.push(l.tokens.to_string()); }
        }
    }
    attrs.clear();
}
impl VisitMut for StripDerive {
    fn visit_field_mut(&mut self, f: &mut syn::Field) { f.attrs.clear(); f.vis = parse_quote!(pub); visit_mut::visit_field_mut(self, f); }
    fn visit_variant_mut(&mut self, v: &mut syn::Variant) {
        v.attrs.clear();
        for f in v.fields.iter_mut() { f.attrs.clear(); f.vis = syn::Visibility::Inherited; }
    }
}

fn emit_item(key: &str, file: &str, mut it: Item, _o: &Opts) {
    if let Item::Struct(st) = &mut it {
        for f in st.fields.iter_mut() {
            if let Some(id) = &f.ident {
                if let Some((_, t)) = _o.fieldty.iter().find(|(n, _)| id == n) {
                    f.ty = syn::parse_str(t).expect("fieldty type");
                }
            }
        }
    }
    let mut sd = StripDerive { derives: vec![] };
    let (start, end) = {
        use syn::spanned::Spanned;
        let kw = match &it {
            Item::Enum(e) => e.enum_token.span.start().line,
            Item::Struct(e) => e.struct_token.span.start().line,
            Item::Const(e) => e.const_token.span.start().line,
            Item::Type(e) => e.type_token.span.start().line,
            Item::Static(e) => e.static_token.span.start().line,
            _ => it.span().start().line,
        };
        (kw, it.span().end().line)
    };
    let mut derives = vec![];
    // R8: thiserror `#[from]` => the From impl it generates, as a QFrom impl (used by R19)
    let mut from_impls: Vec<String> = vec![];
    if let Item::Enum(e) = &it {
        let en = &e.ident;
        let (ig, tg, wc) = e.generics.split_for_impl();
        for v in &e.variants {
            if let syn::Fields::Unnamed(fu) = &v.fields {
                if fu.unnamed.len() == 1 && fu.unnamed[0].attrs.iter().any(|a| a.path().is_ident("from")) {
                    let ty = &fu.unnamed[0].ty; let vn = &v.ident;
                    from_impls.push(pretty(quote!(
                        impl #ig QFrom<#ty> for #en #tg #wc {
                            open spec fn qfrom_spec(t: #ty) -> Self { #en::#vn(t) }
                            fn qfrom(t: #ty) -> (r: Self) { #en::#vn(t) }
                        }
                    )));
                }
            }
        }
    }
    match &mut it {
        Item::Enum(e) => { strip_item_attrs(&mut e.attrs, &mut derives); e.vis = parse_quote!(pub); }
        Item::Struct(e) => { strip_item_attrs(&mut e.attrs, &mut derives); e.vis = parse_quote!(pub); }
        Item::Const(e) => {
            strip_item_attrs(&mut e.attrs, &mut derives); e.vis = parse_quote!(pub);
            // R22: the elided lifetime of a const reference is 'static; Verus wants it spelled out
            if let Type::Reference(r) = &mut *e.ty { if r.lifetime.is_none() { r.lifetime = Some(parse_quote!('static)); } }
        }
        Item::Type(e) => { strip_item_attrs(&mut e.attrs, &mut derives); e.vis = parse_quote!(pub); }
        Item::Static(e) => { strip_item_attrs(&mut e.attrs, &mut derives); e.vis = parse_quote!(pub); }
        _ => {}
    }
    sd.visit_item_mut(&mut it);
    { let mut cp = CratePaths { n: 0, modfn: _o.modfn.clone() }; cp.visit_item_mut(&mut it); }
    if let Item::Const(c) = &it {
        // exec const with a contract slot:  pub exec const N: T <contract> { EXPR }
        let (n, t, e) = (&c.ident, &c.ty, &c.expr);
        println!("@@ITEM {key}");
        println!("@@META file={file} line_start={start} line_end={end} loops=0 closures=0 rewrites=R8:1,R22:1 derives=");
        println!("@@TEXT");
        println!("{}", pretty(quote!(pub exec const #n : #t)));
        println!("__VERIF_CONTRACT__");
        println!("{{ {} }}", pretty(e.to_token_stream()));
        println!("@@END");
        return;
    }
    println!("@@ITEM {key}");
    println!("@@META file={file} line_start={start} line_end={end} loops=0 closures=0 rewrites=R8:1 derives={}", derives.join(";").replace(' ', ""));
    println!("@@TEXT");
    if _o.copy {
        let d = derives.join(",");
        if d.contains("Copy") && d.contains("Clone") { println!("#[derive(Clone, Copy)]"); } else { println!("@@UNSUPPORTED copy requested but the item does not derive Clone and Copy"); }
    }
    if _o.structural {
        let d = derives.join(",");
        if d.contains("PartialEq") { println!("#[derive(Structural, PartialEq, Eq)]"); } else { println!("@@UNSUPPORTED structural requested but the item does not derive PartialEq"); }
    }
    println!("{}", pretty(it.to_token_stream()));
    for f in &from_impls { println!("{f}"); }
    println!("@@END");
}

fn main() {
    let args: Vec<String> = std::env::args().collect();
    if args.len() < 3 { eprintln!("usage: xt <repo-root> <takes-file>"); std::process::exit(3); }
    let root = &args[1];
    let takes = std::fs::read_to_string(&args[2]).expect("takes file");
    let mut cache: BTreeMap<String, Result<syn::File, String>> = BTreeMap::new();
    for line in takes.lines() {
        let line = line.trim();
        if line.is_empty() || line.starts_with('#') { continue; }
        let parts: Vec<&str> = line.splitn(4, '|').collect();
        if parts.len() < 3 { println!("@@ERROR ? malformed take line: {line}"); continue; }
        let (key, file, selector) = (parts[0].trim(), parts[1].trim(), parts[2].trim());
        let o = parse_opts(parts.get(3).copied().unwrap_or(""));
        let parsed = cache.entry(file.to_string()).or_insert_with(|| {
            let p = format!("{root}/{file}");
            let src = std::fs::read_to_string(&p).map_err(|e| format!("cannot read {p}: {e}"))?;
            syn::parse_file(&src).map_err(|e| format!("cannot parse {p}: {e}"))
        });
        let f = match parsed { Ok(f) => f, Err(e) => { println!("@@ERROR {key} {e}"); continue; } };
        let sel: Vec<&str> = selector.split(" :: ").map(|s| s.trim()).collect();
        // special selectors
        let w0: Vec<&str> = sel[0].split_whitespace().collect();
        if w0[0] == "invocations" {
            let mut v = vec![]; list_invocations(&f.items, w0[1], &mut v);
            println!("@@ITEM {key}");
            println!("@@META file={file} line_start=0 line_end=0 loops=0 closures=0 rewrites=");
            println!("@@TEXT");
            for x in v { println!("{x}"); }
            println!("@@END");
            continue;
        }
        let (items_owned, sel_rest): (Option<Vec<Item>>, &[&str]) = if w0[0] == "macrofn" {
            // definition file (macfile) may differ from the invocation file
            let def_items: Vec<Item> = match &o.macfile {
                Some(mf) => { let pth = format!("{root}/{mf}"); match std::fs::read_to_string(&pth).ok().and_then(|src| syn::parse_file(&src).ok()) { Some(ff) => ff.items, None => { println!("@@ERROR {key} cannot read macro file {pth}"); continue; } } }
                None => f.items.clone(),
            };
            let mut margs = o.mac_args.clone();
            if let Some(kv) = &o.mac_for {
                let vars = match macro_vars(&def_items, w0[1]) { Some(v) => v, None => { println!("@@ERROR {key} macro_rules! {} not found", w0[1]); continue; } };
                match find_invocation_args(&f.items, w0[1], &vars, kv) { Some(a) => margs = a, None => { println!("@@ERROR {key} no invocation of {} with {}={}", w0[1], kv.0, kv.1); continue; } }
            }
            println!("@@MACARGS {key} {}", margs.join(" ;; "));
            match expand_macro_rules(&def_items, w0[1], &margs) {
                Ok(items) => (Some(items), &sel[1..]),
                Err(e) => { println!("@@ERROR {key} {e}"); continue; }
            }
        } else { (None, &sel[..]) };
        let items: &[Item] = match &items_owned { Some(v) => v, None => &f.items };
        match find(items, sel_rest) {
            Ok(Found::Fn(sig, block, vis, assoc)) => emit_fn(key, o.macfile.as_deref().unwrap_or(file), sig, block, vis, &o, &assoc),
            Ok(Found::Item(it)) => emit_item(key, file, it, &o),
            Err(e) => println!("@@ERROR {key} {e}"),
        }
    }
}
