// ---------- shim: petgraph Graph<T, ()> and DfsPostOrder (assumed contracts; bounded-checked on real petgraph by bounded/c13) ----------
#[derive(Clone, Copy)]
pub struct NodeIndex { pub i: usize }
pub struct EdgeIndex { pub i: usize }
pub struct Graph<T, E> { pub nodes: Vec<T>, pub edges: Ghost<Set<(int, int)>>, pub _e: core::marker::PhantomData<E> }
impl<T> Graph<T, ()> {
    pub open spec fn len(&self) -> int { self.nodes@.len() as int }
    pub open spec fn edge(&self, a: int, b: int) -> bool { self.edges@.contains((a, b)) }
    pub open spec fn edges_ok(&self) -> bool { forall|a: int, b: int| #[trigger] self.edge(a, b) ==> 0 <= a < self.len() && 0 <= b < self.len() }
    #[verifier::external_body]
    pub fn new() -> (r: Self) ensures r.nodes@.len() == 0, r.edges@ == Set::<(int, int)>::empty() { unimplemented!() }
    #[verifier::external_body]
    pub fn add_node(&mut self, n: T) -> (r: NodeIndex)
        ensures final(self).nodes@ == old(self).nodes@.push(n), final(self).edges@ == old(self).edges@, r.i == old(self).nodes@.len()
    { unimplemented!() }
    // a snapshot of the indices 0..node_count (does not borrow the graph)
    #[verifier::external_body]
    pub fn node_indices(&self) -> (r: NodeIndices) ensures r.n == self.nodes@.len() { unimplemented!() }
    #[verifier::external_body]
    pub fn add_edge(&mut self, a: NodeIndex, b: NodeIndex, w: ()) -> (r: EdgeIndex)
        requires a.i < old(self).nodes@.len(), b.i < old(self).nodes@.len()
        ensures final(self).nodes@ == old(self).nodes@, final(self).edges@ == old(self).edges@.insert((a.i as int, b.i as int))
    { unimplemented!() }
    // R20: graph[i]
    #[verifier::external_body]
    pub fn index_shim(&self, i: NodeIndex) -> (r: &T) requires i.i < self.nodes@.len() ensures *r == self.nodes@[i.i as int] { unimplemented!() }
}
pub struct NodeIndices { pub n: usize }
impl ShimIntoIter for NodeIndices {
    type Item = NodeIndex;
    open spec fn items(&self) -> Seq<NodeIndex> { Seq::new(self.n as nat, |i: int| NodeIndex { i: i as usize }) }
    #[verifier::external_body]
    fn shim_iter(self) -> (r: ShimIter<NodeIndex>) { unimplemented!() }
}
impl NodeIndices {
    // Iterator::find: the first index (in ascending order) the predicate accepts
    #[verifier::external_body]
    pub fn find<F: Fn(&NodeIndex) -> bool>(self, f: F) -> (r: Option<NodeIndex>)
        requires forall|i: NodeIndex| (i.i as int) < self.n ==> #[trigger] f.requires((&i,))
        ensures match r {
            Some(x) => (x.i as int) < self.n && f.ensures((&x,), true) && forall|j: NodeIndex| #![trigger j.i] (j.i as int) < x.i ==> f.ensures((&j,), false),
            None => forall|j: NodeIndex| #![trigger j.i] (j.i as int) < self.n ==> f.ensures((&j,), false),
        }
    { unimplemented!() }
}
// reachability in the graph's edge relation
pub open spec fn path<T>(g: &Graph<T, ()>, p: Seq<int>) -> bool {
    p.len() >= 1 && (forall|k: int| 0 <= k < p.len() ==> 0 <= #[trigger] p[k] < g.len()) && forall|k: int| 0 <= k < p.len() - 1 ==> g.edge(#[trigger] p[k], p[k + 1])
}
pub open spec fn reaches<T>(g: &Graph<T, ()>, a: int, b: int) -> bool { exists|p: Seq<int>| path(g, p) && p[0] == a && p.last() == b }
pub open spec fn acyclic<T>(g: &Graph<T, ()>) -> bool { forall|p: Seq<int>| path(g, p) && p.len() >= 2 ==> p[0] != p.last() }
// DfsPostOrder: ghost state = finished nodes, roots moved to so far, number of unfinished nodes
pub struct DfsPostOrder { pub finished: Ghost<Set<int>>, pub roots: Ghost<Set<int>>, pub remaining: Ghost<nat> }
impl DfsPostOrder {
    #[verifier::external_body]
    pub fn empty<T>(g: &&Graph<T, ()>) -> (r: DfsPostOrder)
        ensures r.finished@ == Set::<int>::empty(), r.roots@ == Set::<int>::empty(), r.remaining@ == g.len()
    { unimplemented!() }
    #[verifier::external_body]
    pub fn move_to(&mut self, start: NodeIndex)
        ensures final(self).finished@ == old(self).finished@, final(self).roots@ == old(self).roots@.insert(start.i as int), final(self).remaining@ == old(self).remaining@
    { unimplemented!() }
    // ASSUMED (for acyclic graphs): emits a not yet finished node reachable from a root only after all of its successors
    // have been finished; returns None only when everything reachable from the roots moved to so far is finished
    #[verifier::external_body]
    pub fn next<T>(&mut self, g: &&Graph<T, ()>) -> (r: Option<NodeIndex>)
        requires acyclic(*g), g.edges_ok()
        ensures final(self).roots@ == old(self).roots@,
            match r {
                Some(v) => 0 <= (v.i as int) < g.len() && !old(self).finished@.contains(v.i as int)
                    && final(self).finished@ == old(self).finished@.insert(v.i as int)
                    && old(self).remaining@ > 0 && final(self).remaining@ == old(self).remaining@ - 1
                    && (forall|s: int| g.edge(v.i as int, s) ==> old(self).finished@.contains(s))
                    && (exists|root: int| old(self).roots@.contains(root) && reaches(*g, root, v.i as int)),
                None => final(self).finished@ == old(self).finished@ && final(self).remaining@ == old(self).remaining@
                    && forall|root: int, x: int| old(self).roots@.contains(root) && 0 <= root < g.len() && #[trigger] reaches(*g, root, x) ==> old(self).finished@.contains(x),
            }
    { unimplemented!() }
}
