// ---------- shim: std::process::Command as (program, argument list); ordered containers as entry sequences ----------
pub struct Command { pub prog: Ghost<Seq<char>>, pub a: Ghost<Seq<Seq<char>>> }
pub trait ArgLike: Sized { spec fn av(&self) -> Seq<char>; }
impl<'a> ArgLike for &'a str { open spec fn av(&self) -> Seq<char> { self@ } }
impl<'a> ArgLike for &'a String { open spec fn av(&self) -> Seq<char> { self@ } }
impl ArgLike for String { open spec fn av(&self) -> Seq<char> { self@ } }
pub trait ArgList: Sized { spec fn lv(&self) -> Seq<Seq<char>>; }
impl<'a, const N: usize> ArgList for [&'a str; N] { open spec fn lv(&self) -> Seq<Seq<char>> { Seq::new(N as nat, |i: int| self@[i]@) } }
impl ArgList for Vec<String> { open spec fn lv(&self) -> Seq<Seq<char>> { Seq::new(self@.len(), |i: int| self@[i]@) } }
impl<'a> ArgList for &'a Vec<String> { open spec fn lv(&self) -> Seq<Seq<char>> { Seq::new(self@.len(), |i: int| self@[i]@) } }
impl Command {
    #[verifier::external_body]
    pub fn new(p: &str) -> (r: Command) ensures r.prog@ == p@, r.a@ == Seq::<Seq<char>>::empty() { unimplemented!() }
    #[verifier::external_body]
    pub fn arg<A: ArgLike>(&mut self, x: A) -> (r: &mut Command)
        ensures r.prog@ == old(self).prog@, r.a@ == old(self).a@.push(x.av()), *final(r) == *final(self)
    { unimplemented!() }
    #[verifier::external_body]
    pub fn args<L: ArgList>(&mut self, l: L) -> (r: &mut Command)
        ensures r.prog@ == old(self).prog@, r.a@ == old(self).a@ + l.lv(), *final(r) == *final(self)
    { unimplemented!() }
}
// BTreeMap / BTreeSet: iteration yields every entry exactly once (ascending; the order is irrelevant for C17)
pub struct BTreeMap<K, V> { pub e: Vec<(K, V)> }
pub struct BTreeSet<T> { pub e: Vec<T> }
pub open spec fn btree_items<'a, K, V>(m: &'a BTreeMap<K, V>) -> Seq<(&'a K, &'a V)> { Seq::new(m.e@.len(), |i: int| (&m.e@[i].0, &m.e@[i].1)) }
impl<'a, K, V> ShimIntoIter for &'a BTreeMap<K, V> {
    type Item = (&'a K, &'a V);
    open spec fn items(&self) -> Seq<(&'a K, &'a V)> { btree_items(*self) }
    #[verifier::external_body]
    fn shim_iter(self) -> (r: ShimIter<(&'a K, &'a V)>) { unimplemented!() }
}
pub open spec fn bset_items<'a, T>(m: &'a BTreeSet<T>) -> Seq<&'a T> { Seq::new(m.e@.len(), |i: int| &m.e@[i]) }
impl<'a, T> ShimIntoIter for &'a BTreeSet<T> {
    type Item = &'a T;
    open spec fn items(&self) -> Seq<&'a T> { bset_items(*self) }
    #[verifier::external_body]
    fn shim_iter(self) -> (r: ShimIter<&'a T>) { unimplemented!() }
}
// paths only occur as text here
pub struct PathBuf { pub t: Ghost<Seq<char>> }
impl PathBuf {
    pub open spec fn text(&self) -> Seq<char> { self.t@ }
    // lossy UTF-8 rendering of the path (a Cow<str> in std)
    #[verifier::external_body]
    pub fn to_string_lossy(&self) -> (r: Lossy) ensures r.t@ == self.text() { unimplemented!() }
}
pub struct Lossy { pub t: Ghost<Seq<char>> }
impl Lossy {
    #[verifier::external_body]
    pub fn to_string(&self) -> (r: String) ensures r@ == self.t@ { unimplemented!() }
}
impl Disp for Lossy { open spec fn disp(&self) -> Seq<char> { self.t@ } }
impl core::ops::Deref for Lossy {
    type Target = str;
    #[verifier::external_body]
    fn deref(&self) -> (r: &str) ensures r@ == self.t@ { unimplemented!() }
}
pub open spec fn dec(n: nat) -> Seq<char> decreases n {
    if n < 10 { seq![(('0' as nat + n) as u8) as char] } else { dec(n / 10).push((('0' as nat + n % 10) as u8) as char) }
}
impl Disp for u16 { open spec fn disp(&self) -> Seq<char> { dec(*self as nat) } }
