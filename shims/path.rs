// ---------- shim: paths = absolute sequences of normal components (unix) ----------
pub type PathV = Seq<Seq<u8>>;
pub struct PathBuf { pub v: Ghost<PathV> }
impl View for PathBuf { type V = PathV; closed spec fn view(&self) -> PathV { self.v@ } }
pub type Path = PathBuf;   // &Path and PathBuf share one shim
pub open spec fn is_component(c: Seq<u8>) -> bool {
    c.len() > 0 && (forall|i: int| 0 <= i < c.len() ==> c[i] != 47u8 && c[i] != 0u8) && c != seq![46u8] && c != seq![46u8, 46u8]
}
pub open spec fn is_prefix(a: PathV, b: PathV) -> bool { a.len() <= b.len() && forall|i: int| 0 <= i < a.len() ==> #[trigger] b[i] == a[i] }
pub open spec fn strictly_under(d: PathV, p: PathV) -> bool { is_prefix(d, p) && p.len() > d.len() }
pub open spec fn child_of(d: PathV, p: PathV) -> bool { is_prefix(d, p) && p.len() == d.len() + 1 }
// shadows std's AsRef inside generated units: the only instances are the path-like ones the code uses
pub trait AsRef<T> {
    spec fn path_view(&self) -> PathV;
    fn as_ref(&self) -> (r: &Path) ensures r@ == self.path_view();
}
impl AsRef<Path> for PathBuf {
    open spec fn path_view(&self) -> PathV { self@ }
    #[verifier::external_body]
    fn as_ref(&self) -> (r: &Path) { unimplemented!() }
}
// a text used as a path argument: only ever a relative ONE-component name in /repo (symlink target "build"); viewed as that component
impl<'a> AsRef<Path> for &'a str {
    open spec fn path_view(&self) -> PathV { seq![utf8(self@)] }
    #[verifier::external_body]
    fn as_ref(&self) -> (r: &Path) { unimplemented!() }
}
impl<'a, T: AsRef<Path>> AsRef<Path> for &'a T {
    open spec fn path_view(&self) -> PathV { (**self).path_view() }
    #[verifier::external_body]
    fn as_ref(&self) -> (r: &Path) { unimplemented!() }
}
impl PathBuf {
    // join with ONE normal component (the design claims layer/env paths for single-component names only)
    #[verifier::external_body]
    pub fn join<T: OsLike>(&self, t: T) -> (r: PathBuf)
        requires is_component(t.os_view())
        ensures r@ == self@.push(t.os_view())
    { unimplemented!() }
}
// std's Path::file_stem / Path::extension on a final component (documented rule; ".." is not a component here)
pub open spec fn last_dot(s: Seq<u8>) -> int decreases s.len() {
    if s.len() == 0 { -1 } else if s.last() == 46u8 { s.len() - 1 } else { last_dot(s.drop_last()) }
}
pub open spec fn stem_of(s: Seq<u8>) -> Seq<u8> { if last_dot(s) <= 0 { s } else { s.subrange(0, last_dot(s)) } }
pub open spec fn ext_of(s: Seq<u8>) -> Option<Seq<u8>> { if last_dot(s) <= 0 { None } else { Some(s.subrange(last_dot(s) + 1, s.len() as int)) } }
impl PathBuf {
    // std's documented stem/extension rule on the final component (specs/env_files.rs: stem_of / ext_of)
    #[verifier::external_body]
    pub fn file_stem(&self) -> (r: Option<&OsStr>)
        ensures self@.len() > 0 ==> (r matches Some(s) && s@ == stem_of(self@.last())), self@.len() == 0 ==> r is None
    { unimplemented!() }
    #[verifier::external_body]
    pub fn extension(&self) -> (r: Option<&OsStr>)
        ensures self@.len() > 0 ==> (match r { Some(e) => ext_of(self@.last()) == Some(e@), None => ext_of(self@.last()) is None }), self@.len() == 0 ==> r is None
    { unimplemented!() }
    #[verifier::external_body]
    pub fn file_name(&self) -> (r: Option<&OsStr>)
        ensures self@.len() > 0 ==> (r matches Some(s) && s@ == self@.last()), self@.len() == 0 ==> r is None
    { unimplemented!() }
}
impl PathBuf {
    // PathBuf::push with ONE normal component: extends the path in place (it stays extended until popped)
    #[verifier::external_body]
    pub fn push<T: OsLike>(&mut self, t: T)
        requires is_component(t.os_view())
        ensures final(self)@ == old(self)@.push(t.os_view())
    { unimplemented!() }
    #[verifier::external_body]
    pub fn pop(&mut self) -> (r: bool)
        ensures old(self)@.len() > 0 ==> r && final(self)@ == old(self)@.drop_last(), old(self)@.len() == 0 ==> !r && final(self)@ == old(self)@
    { unimplemented!() }
}
// std's Path::with_extension: the final component's extension is REPLACED (stem kept), not appended
pub open spec fn with_ext(c: Seq<u8>, e: Seq<u8>) -> Seq<u8> { if e.len() == 0 { stem_of(c) } else { stem_of(c) + seq![46u8] + e } }
impl PathBuf {
    #[verifier::external_body]
    pub fn with_extension<T: OsLike>(&self, e: T) -> (r: PathBuf)
        ensures self@.len() > 0 ==> r@ == self@.drop_last().push(with_ext(self@.last(), e.os_view())), self@.len() == 0 ==> r@ == self@
    { unimplemented!() }
}
// PathBuf::from(text) / PathBuf::from(&path): the path a text denotes is uninterpreted (only equality matters)
pub uninterp spec fn path_of_text(s: Seq<char>) -> PathV;
pub trait PathFromArg { spec fn pv(&self) -> PathV; }
impl PathFromArg for String { open spec fn pv(&self) -> PathV { path_of_text(self@) } }
impl<'a> PathFromArg for &'a String { open spec fn pv(&self) -> PathV { path_of_text(self@) } }
impl<'a> PathFromArg for &'a PathBuf { open spec fn pv(&self) -> PathV { (**self)@ } }
impl PathBuf {
    #[verifier::external_body]
    pub fn from<A: PathFromArg>(a: A) -> (r: PathBuf) ensures r@ == a.pv() { unimplemented!() }
    // to_owned of the final component, as an OS string
}
impl OsString {
    #[verifier::external_body]
    pub fn to_owned(&self) -> (r: OsString) ensures r@ == self@ { unimplemented!() }
}
impl Clone for PathBuf {
    #[verifier::external_body]
    fn clone(&self) -> (r: PathBuf) ensures r@ == self@ { unimplemented!() }
}
impl<'a> OsLike for &'a PathBuf { open spec fn os_view(&self) -> Seq<u8> { path_bytes((**self)@) } }
// the byte rendering of a path ("/a/b"): uninterpreted, only used as an opaque value (C10)
pub uninterp spec fn path_bytes(p: PathV) -> Seq<u8>;
// `impl<T: ?Sized + AsRef<OsStr>> From<&T> for OsString` for paths: the path's bytes
pub uninterp spec fn os_of_path(p: PathV) -> OsString;
pub broadcast axiom fn axiom_os_of_path(p: PathV) ensures (#[trigger] os_of_path(p))@ == path_bytes(p);
impl<'a> FromSpecImpl<&'a PathBuf> for OsString {
    open spec fn obeys_from_spec() -> bool { true }
    open spec fn from_spec(o: &'a PathBuf) -> OsString { os_of_path(o@) }
}
impl<'a> From<&'a PathBuf> for OsString {
    #[verifier::external_body]
    fn from(o: &'a PathBuf) -> (r: OsString) { unimplemented!() }
}
