// ---------- shim: HashMap<String, V> (map view; iteration order unspecified) ----------
#[verifier::reject_recursive_types(K)]
pub struct HashMap<K, V> { pub m: Ghost<Map<Seq<char>, V>>, pub k: core::marker::PhantomData<K> }
impl<V> HashMap<String, V> {
    pub open spec fn view(&self) -> Map<Seq<char>, V> { self.m@ }
    #[verifier::external_body]
    pub fn new() -> (r: Self) ensures r@ == Map::<Seq<char>, V>::empty() { unimplemented!() }
    #[verifier::external_body]
    pub fn get(&self, k: &String) -> (r: Option<&V>)
        ensures match r { Some(v) => self@.contains_key(k@) && *v == self@[k@], None => !self@.contains_key(k@) }
    { unimplemented!() }
    #[verifier::external_body]
    pub fn insert(&mut self, k: String, v: V) -> (r: Option<V>)
        ensures final(self)@ == old(self)@.insert(k@, v)
    { unimplemented!() }
    #[verifier::external_body]
    pub fn is_empty(&self) -> (r: bool) ensures r == (self@.len() == 0) { unimplemented!() }
    #[verifier::external_body]
    pub fn len(&self) -> (r: usize) ensures r == self@.len() { unimplemented!() }
    #[verifier::external_body]
    pub fn entry(&mut self, k: String) -> (r: Entry<'_, V>)
        ensures r.key() == k@, r.before() == old(self)@,
            (r is Occupied) == old(self)@.contains_key(k@),
            // prophecy: whatever the entry ends up holding is what the map holds afterwards
            final(self)@ == r.after(),
    { unimplemented!() }
}
pub enum Entry<'a, V> { Occupied(OccupiedEntry<'a, V>), Vacant(VacantEntry<'a, V>) }
pub struct OccupiedEntry<'a, V> { pub g: Ghost<(Seq<char>, Map<Seq<char>, V>, Map<Seq<char>, V>)>, pub p: core::marker::PhantomData<&'a mut V> }
pub struct VacantEntry<'a, V> { pub g: Ghost<(Seq<char>, Map<Seq<char>, V>, Map<Seq<char>, V>)>, pub p: core::marker::PhantomData<&'a mut V> }
impl<'a, V> Entry<'a, V> {
    pub open spec fn key(&self) -> Seq<char> { match self { Entry::Occupied(e) => e.g@.0, Entry::Vacant(e) => e.g@.0 } }
    pub open spec fn before(&self) -> Map<Seq<char>, V> { match self { Entry::Occupied(e) => e.g@.1, Entry::Vacant(e) => e.g@.1 } }
    pub open spec fn after(&self) -> Map<Seq<char>, V> { match self { Entry::Occupied(e) => e.g@.2, Entry::Vacant(e) => e.g@.2 } }
}
impl<'a, V> OccupiedEntry<'a, V> {
    #[verifier::external_body]
    pub fn into_mut(self) -> (r: &'a mut V)
        ensures *r == self.g@.1[self.g@.0], self.g@.2 == self.g@.1.insert(self.g@.0, *final(r))
    { unimplemented!() }
}
impl<'a, V> VacantEntry<'a, V> {
    #[verifier::external_body]
    pub fn insert(self, v: V) -> (r: &'a mut V)
        ensures *r == v, self.g@.2 == self.g@.1.insert(self.g@.0, *final(r))
    { unimplemented!() }
}
// iteration: some duplicate-free enumeration of the entries, order NOT specified (holds for every hash seed)
pub uninterp spec fn hashmap_items<'a, V>(m: &'a HashMap<String, V>) -> Seq<(&'a String, &'a V)>;
impl<'a, V> ShimIntoIter for &'a HashMap<String, V> {
    type Item = (&'a String, &'a V);
    open spec fn items(&self) -> Seq<(&'a String, &'a V)> { hashmap_items(*self) }
    #[verifier::external_body]
    fn shim_iter(self) -> (r: ShimIter<(&'a String, &'a V)>) { unimplemented!() }
}
pub broadcast axiom fn axiom_hashmap_items<'a, V>(m: &'a HashMap<String, V>)
    ensures
        forall|i: int| 0 <= i < (#[trigger] hashmap_items(m)).len() ==> m@.contains_key(hashmap_items(m)[i].0@) && *hashmap_items(m)[i].1 == m@[hashmap_items(m)[i].0@],
        forall|i: int, j: int| 0 <= i < j < hashmap_items(m).len() ==> hashmap_items(m)[i].0@ != hashmap_items(m)[j].0@,
        forall|k: Seq<char>| m@.contains_key(k) ==> exists|i: int| 0 <= i < hashmap_items(m).len() && #[trigger] hashmap_items(m)[i].0@ == k;
