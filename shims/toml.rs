// ---------- shim: serde + toml as an uninterpreted (de)serialisation pair ----------
pub trait Serialize {}
pub trait DeserializeOwned: Sized {}
impl<'a, T: Serialize> Serialize for &'a T {}
impl<T: Serialize> Serialize for Option<T> {}
impl<T: DeserializeOwned> DeserializeOwned for Option<T> {}
pub struct TomlDeError { pub e: Ghost<int> }
pub struct TomlSerError { pub e: Ghost<int> }
pub uninterp spec fn toml_de<T>(s: Seq<char>) -> Result<T, TomlDeError>;
pub uninterp spec fn toml_ser<T>(v: T) -> Result<Seq<char>, TomlSerError>;
pub mod toml {
    use super::*;
    pub mod de { pub type Error = super::super::TomlDeError; }
    pub mod ser { pub type Error = super::super::TomlSerError; }
    pub mod value {
        #[verifier::external_body]
        pub struct Table { _p: () }
    }
    #[verifier::external_body]
    pub fn from_str<T: DeserializeOwned>(s: &str) -> (r: Result<T, TomlDeError>)
        ensures r == toml_de::<T>(s@)
    { unimplemented!() }
    // serialising through a reference gives the same text as serialising the value
    #[verifier::external_body]
    pub fn to_string<T: Serialize>(v: &T) -> (r: Result<String, TomlSerError>)
        ensures match r { Ok(s) => toml_ser::<T>(*v) == Ok::<Seq<char>, TomlSerError>(s@), Err(e) => toml_ser::<T>(*v) == Err::<Seq<char>, TomlSerError>(e) }
    { unimplemented!() }
}
impl Serialize for toml::value::Table {}
impl DeserializeOwned for toml::value::Table {}
pub broadcast axiom fn axiom_toml_ser_ref<T>(v: &T)
    ensures #[trigger] toml_ser::<&T>(v) == toml_ser::<T>(*v);
