// ---------- shim: format! with only `{}` / `{ident}` placeholders (R5) ----------
pub trait Disp { spec fn disp(&self) -> Seq<char>; }
impl Disp for String { open spec fn disp(&self) -> Seq<char> { self@ } }
impl<'a> Disp for &'a str { open spec fn disp(&self) -> Seq<char> { self@ } }
impl<'a, T: Disp> Disp for &'a T { open spec fn disp(&self) -> Seq<char> { (**self).disp() } }
#[verifier::external_body]
pub fn fmt_lit(s: &str) -> (r: String) ensures r@ == s@ { unimplemented!() }
#[verifier::external_body]
pub fn fmt_arg<T: Disp>(t: &T) -> (r: String) ensures r@ == t.disp() { unimplemented!() }
#[verifier::external_body]
pub fn fmt_concat1(a: String) -> (r: String) ensures r@ == a@ { unimplemented!() }
#[verifier::external_body]
pub fn fmt_concat2(a: String, b: String) -> (r: String) ensures r@ == a@ + b@ { unimplemented!() }
#[verifier::external_body]
pub fn fmt_concat3(a: String, b: String, c: String) -> (r: String) ensures r@ == a@ + b@ + c@ { unimplemented!() }
#[verifier::external_body]
pub fn fmt_concat4(a: String, b: String, c: String, d: String) -> (r: String) ensures r@ == a@ + b@ + c@ + d@ { unimplemented!() }
#[verifier::external_body]
pub fn fmt_concat5(a: String, b: String, c: String, d: String, e: String) -> (r: String) ensures r@ == a@ + b@ + c@ + d@ + e@ { unimplemented!() }
