// ---------- shim: std::path as a sequence of components (unix), for lexical normalisation (C14) ----------
// Assumed (std docs): Path::components() yields RootDir only first, CurDir only first (a `.` in the middle and repeated
// separators are dropped), never Prefix on unix; PathBuf::push of a relative component appends, of "/" replaces; pop removes the
// last non-root component.
pub enum Comp { Root, Cur, Parent, Normal(Seq<u8>) }
pub struct PathBuf { pub c: Ghost<Seq<Comp>> }
pub type Path = PathBuf;
pub struct OsStr { pub k: Ghost<Comp> }
impl View for PathBuf { type V = Seq<Comp>; closed spec fn view(&self) -> Seq<Comp> { self.c@ } }
pub open spec fn comps_wf(c: Seq<Comp>) -> bool { forall|i: int| 0 < i < c.len() ==> !(#[trigger] c[i] is Root) && !(c[i] is Cur) }
pub struct PrefixComponent { pub x: Ghost<int> }
#[derive(Clone, Copy)]
pub enum Component<'a> { Prefix(&'a PrefixComponent), RootDir, CurDir, ParentDir, Normal(&'a OsStr) }
impl<'a> Component<'a> {
    pub open spec fn comp(&self) -> Comp {
        match self { Component::Prefix(_) => Comp::Root, Component::RootDir => Comp::Root, Component::CurDir => Comp::Cur, Component::ParentDir => Comp::Parent, Component::Normal(o) => o.k@ }
    }
    #[verifier::external_body]
    pub fn as_os_str(self) -> (r: &'a OsStr) ensures r.k@ == self.comp() { unimplemented!() }
}
pub struct Components<'a> { pub s: Ghost<Seq<Comp>>, pub p: core::marker::PhantomData<&'a ()> }
pub struct Peekable<'a> { pub s: Ghost<Seq<Comp>>, pub pos: Ghost<int>, pub p: core::marker::PhantomData<&'a ()> }
impl<'a> Components<'a> {
    #[verifier::external_body]
    pub fn peekable(self) -> (r: Peekable<'a>) ensures r.s@ == self.s@, r.pos@ == 0 { unimplemented!() }
}
pub open spec fn component_of(c: Component, k: Comp) -> bool { !(c is Prefix) && c.comp() == k && (c matches Component::Normal(o) ==> o.k@ is Normal) }
impl<'a> Peekable<'a> {
    #[verifier::external_body]
    pub fn peek(&mut self) -> (r: Option<&Component<'a>>)
        ensures final(self).s@ == old(self).s@, final(self).pos@ == old(self).pos@,
            match r { Some(c) => old(self).pos@ < old(self).s@.len() && component_of(*c, old(self).s@[old(self).pos@]), None => old(self).pos@ >= old(self).s@.len() }
    { unimplemented!() }
    #[verifier::external_body]
    pub fn next(&mut self) -> (r: Option<Component<'a>>)
        ensures final(self).s@ == old(self).s@,
            match r { Some(c) => old(self).pos@ < old(self).s@.len() && component_of(c, old(self).s@[old(self).pos@]) && final(self).pos@ == old(self).pos@ + 1, None => old(self).pos@ >= old(self).s@.len() && final(self).pos@ == old(self).pos@ }
    { unimplemented!() }
}
pub uninterp spec fn peek_items<'a>(p: Peekable<'a>) -> Seq<Component<'a>>;
pub broadcast axiom fn axiom_peek_items<'a>(p: Peekable<'a>)
    ensures (#[trigger] peek_items(p)).len() == (if p.pos@ <= p.s@.len() { p.s@.len() - p.pos@ } else { 0 }),
        forall|i: int| 0 <= i < peek_items(p).len() ==> component_of(#[trigger] peek_items(p)[i], p.s@[p.pos@ + i]);
impl<'a> ShimIntoIter for Peekable<'a> {
    type Item = Component<'a>;
    open spec fn items(&self) -> Seq<Component<'a>> { peek_items(*self) }
    #[verifier::external_body]
    fn shim_iter(self) -> (r: ShimIter<Component<'a>>) { unimplemented!() }
}
pub trait PushArg { spec fn arg(&self) -> Comp; }
impl<'a> PushArg for &'a OsStr { open spec fn arg(&self) -> Comp { self.k@ } }
pub open spec fn pop_spec(p: Seq<Comp>) -> Seq<Comp> { if p.len() > 0 && !(p.last() is Root) { p.drop_last() } else { p } }
pub open spec fn push_spec(p: Seq<Comp>, k: Comp) -> Seq<Comp> { if k is Root { seq![Comp::Root] } else { p.push(k) } }
pub open spec fn is_abs(p: Seq<Comp>) -> bool { p.len() > 0 && p[0] is Root }
// join: an absolute argument replaces; otherwise its components are appended (a leading `.` of the argument disappears
// when the result is split into components again, unless the base is empty)
pub open spec fn join_spec(a: Seq<Comp>, b: Seq<Comp>) -> Seq<Comp> {
    if is_abs(b) { b } else if a.len() == 0 { b } else if b.len() > 0 && b[0] is Cur { a + b.drop_first() } else { a + b }
}
impl PathBuf {
    #[verifier::external_body]
    pub fn new() -> (r: PathBuf) ensures r@ == Seq::<Comp>::empty() { unimplemented!() }
    #[verifier::external_body]
    pub fn components(&self) -> (r: Components<'_>) ensures r.s@ == self@ { unimplemented!() }
    #[verifier::external_body]
    pub fn push<A: PushArg>(&mut self, a: A) ensures final(self)@ == push_spec(old(self)@, a.arg()) { unimplemented!() }
    #[verifier::external_body]
    pub fn pop(&mut self) -> (r: bool) ensures final(self)@ == pop_spec(old(self)@) { unimplemented!() }
    #[verifier::external_body]
    pub fn is_relative(&self) -> (r: bool) ensures r == !is_abs(self@) { unimplemented!() }
    #[verifier::external_body]
    pub fn join(&self, o: &Path) -> (r: PathBuf) ensures r@ == join_spec(self@, o@) { unimplemented!() }
}
pub trait FromArg { spec fn from_view(&self) -> Seq<Comp>; }
impl<'a> FromArg for &'a OsStr { open spec fn from_view(&self) -> Seq<Comp> { seq![self.k@] } }
impl<'a> FromArg for &'a PathBuf { open spec fn from_view(&self) -> Seq<Comp> { (**self)@ } }
impl PathBuf {
    #[verifier::external_body]
    pub fn from<A: FromArg>(a: A) -> (r: PathBuf) ensures r@ == a.from_view() { unimplemented!() }
}
