// ---------- shim: io::Write (trait-level contract = assumption on the wrapped writers), mapping function, mem::take ----------
pub struct IoError { pub e: Ghost<int> }
pub mod io {
    pub type Result<T> = core::result::Result<T, super::IoError>;
    pub use super::Write;
}
pub trait Write {
    // everything written to this writer so far
    spec fn out(&self) -> Seq<u8>;
    // write_all: on success the whole buffer was appended; on error some prefix of it may have been
    fn write_all(&mut self, buf: &[u8]) -> (r: Result<(), IoError>)
        ensures r is Ok ==> final(self).out() == old(self).out() + buf@,
            r is Err ==> exists|n: int| 0 <= n <= buf@.len() && final(self).out() == old(self).out() + buf@.subrange(0, n);
    fn flush(&mut self) -> (r: Result<(), IoError>)
        ensures final(self).out() == old(self).out();
    // write: some prefix of the buffer is appended (possibly all of it, possibly nothing on error)
    fn write(&mut self, buf: &[u8]) -> (r: Result<usize, IoError>)
        ensures r matches Ok(n) ==> n <= buf@.len() && final(self).out() == old(self).out() + buf@.subrange(0, n as int),
            r is Err ==> final(self).out() == old(self).out();
}
// the mapping function `Arc<dyn Fn(Vec<u8>) -> Vec<u8> + Sync + Send>`: assumed pure (same input, same output)
#[verifier::external_body]
pub struct MapFn { _f: core::marker::PhantomData<()> }
impl MapFn {
    pub uninterp spec fn map_spec(&self, v: Seq<u8>) -> Seq<u8>;
    #[verifier::external_body]
    pub fn call(&self, v: Vec<u8>) -> (r: Vec<u8>) ensures r@ == self.map_spec(v@) { unimplemented!() }
}
pub mod mem {
    use super::*;
    #[verifier::external_body]
    pub fn take(v: &mut Vec<u8>) -> (r: Vec<u8>) ensures r@ == old(v)@, final(v)@ == Seq::<u8>::empty() { unimplemented!() }
}
