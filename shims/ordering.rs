// ---------- shim: comparison traits and the iterator adapters of the inventory code (C18) ----------
// The unit shadows std's PartialOrd / Ord / Iterator by traits that carry a specification; generic bounds in the
// extracted code (`V: Ord`, `A: PartialOrd`, `I: Iterator`) then resolve to these.
pub use core::cmp::Ordering;
pub trait PartialOrd {
    spec fn pc(&self, o: &Self) -> Option<Ordering>;
    fn partial_cmp(&self, o: &Self) -> (r: Option<Ordering>) ensures r == self.pc(o);
    // ASSUMED of every implementation (std's documented PartialOrd laws): `>` is transitive, also through `==`, and irreflexive
    proof fn lemma_lawful(a: &Self, b: &Self, c: &Self)
        ensures (a.pc(b) == Some(Ordering::Greater) && (b.pc(c) == Some(Ordering::Greater) || b.pc(c) == Some(Ordering::Equal))) ==> a.pc(c) == Some(Ordering::Greater);
    proof fn lemma_irreflexive(a: &Self) ensures a.pc(a) != Some(Ordering::Greater);
}
impl<'a, V: PartialOrd> PartialOrd for &'a V {
    open spec fn pc(&self, o: &Self) -> Option<Ordering> { (**self).pc(&**o) }
    #[verifier::external_body]
    fn partial_cmp(&self, o: &Self) -> (r: Option<Ordering>) { unimplemented!() }
    proof fn lemma_lawful(a: &Self, b: &Self, c: &Self) { V::lemma_lawful(&**a, &**b, &**c); }
    proof fn lemma_irreflexive(a: &Self) { V::lemma_irreflexive(&**a); }
}
// a total order: `le` total (ASSUMED of every implementation, std's documented Ord laws)
pub trait Ord {
    spec fn le(&self, o: &Self) -> bool;
    proof fn lemma_total(a: &Self, b: &Self) ensures a.le(b) || b.le(a);
}
impl<'a, V: Ord> Ord for &'a V {
    open spec fn le(&self, o: &Self) -> bool { (**self).le(&**o) }
    proof fn lemma_total(a: &Self, b: &Self) { V::lemma_total(&**a, &**b); }
}
pub open spec fn exceeds<A: PartialOrd>(a: &A, b: &A) -> bool { a.pc(b) == Some(Ordering::Greater) }
// an iterator = the sequence of items it will still yield
pub trait Iterator {
    type Item;
    spec fn rest(&self) -> Seq<Self::Item>;
    fn next(&mut self) -> (r: Option<Self::Item>)
        ensures match r {
            None => old(self).rest().len() == 0 && final(self).rest() == old(self).rest(),
            Some(x) => old(self).rest().len() > 0 && x == old(self).rest()[0] && final(self).rest() == old(self).rest().skip(1),
        };
}
// the key a deterministic, total key function / predicate gives an item
pub open spec fn key_of<X, A, F: Fn(&X) -> A>(f: F, x: X) -> A { choose|k: A| f.ensures((&x,), k) }
pub open spec fn key_fn_ok<X, A, F: Fn(&X) -> A>(f: F) -> bool {
    &&& forall|x: X| #[trigger] f.requires((&x,))
    &&& forall|x: X, k: A| #[trigger] f.ensures((&x,), k) ==> k == key_of(f, x)
}
// `v.iter().filter(p)`: yields exactly the elements of v for which p answers true (std: Filter::next calls p on each element in turn)
#[verifier::external_body]
#[verifier::reject_recursive_types(T)]
#[verifier::reject_recursive_types(P)]
pub struct FilterIter<'a, T, P> { _p: core::marker::PhantomData<(&'a T, P)> }
impl<'a, T, P> FilterIter<'a, T, P> { pub uninterp spec fn items(&self) -> Seq<&'a T>; }
impl<'a, T, P: Fn(&&'a T) -> bool> Iterator for FilterIter<'a, T, P> {
    type Item = &'a T;
    open spec fn rest(&self) -> Seq<&'a T> { self.items() }
    #[verifier::external_body]
    fn next(&mut self) -> (r: Option<&'a T>) { unimplemented!() }
}
#[verifier::external_body]
pub fn shim_filter<'a, T, P: Fn(&&'a T) -> bool>(v: &'a Vec<T>, p: P) -> (r: FilterIter<'a, T, P>)
    requires key_fn_ok(p)
    ensures
        forall|i: int| 0 <= i < r.rest().len() ==> key_of(p, #[trigger] r.rest()[i]) && exists|j: int| 0 <= j < v@.len() && r.rest()[i] == &#[trigger] v@[j],
        forall|j: int| 0 <= j < v@.len() && key_of(p, &#[trigger] v@[j]) ==> exists|i: int| 0 <= i < r.rest().len() && #[trigger] r.rest()[i] == &v@[j],
{ unimplemented!() }
// `it.max_by_key(f)`: an element whose key no other element's key exceeds; None exactly for the empty iterator (std documentation)
#[verifier::external_body]
pub fn shim_max_by_key<I: Iterator, B: Ord, F: Fn(&I::Item) -> B>(it: I, f: F) -> (r: Option<I::Item>)
    requires key_fn_ok(f)
    ensures it.rest().len() == 0 <==> r is None,
        r matches Some(m) ==> (exists|i: int| 0 <= i < it.rest().len() && #[trigger] it.rest()[i] == m)
            && forall|j: int| 0 <= j < it.rest().len() ==> key_of(f, #[trigger] it.rest()[j]).le(&key_of(f, m)),
{ unimplemented!() }
// identity on one-argument closures taking a reference (R38 passes hoisted closures through it to keep their call-site signature)
pub fn __fn1<X, Y, F: Fn(&X) -> Y>(f: F) -> (r: F) ensures r == f { f }
// a closure whose precondition holds returns SOME value satisfying its postcondition - true of every terminating closure; Verus does not
// derive it because closures need not terminate. ASSUMED here for the straight-line filter / key closures it is applied to (explicit calls only).
pub axiom fn axiom_closure_total<X, Y, F: Fn(&X) -> Y>(f: F, x: X)
    requires f.requires((&x,))
    ensures f.ensures((&x,), key_of(f, x));
