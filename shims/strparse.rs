// ---------- shim: std string functions used by the version parsers (assume_specification on the real std items) ----------
pub open spec fn is_digit(c: char) -> bool { '0' <= c && c <= '9' }
pub open spec fn all_digits(s: Seq<char>) -> bool { s.len() > 0 && forall|i: int| 0 <= i < s.len() ==> is_digit(#[trigger] s[i]) }
pub open spec fn digits_val(s: Seq<char>) -> nat decreases s.len() {
    if s.len() == 0 { 0 } else { digits_val(s.drop_last()) * 10 + (s.last() as nat - '0' as nat) as nat }
}
// faithful to core::num::<impl FromStr for u64>: optional single leading '+', then >= 1 ASCII digits, value must fit
pub open spec fn parse_u64_spec(s: Seq<char>) -> Option<u64> {
    let body = if s.len() > 0 && s[0] == '+' { s.drop_first() } else { s };
    if all_digits(body) && digits_val(body) <= u64::MAX { Some(digits_val(body) as u64) } else { None }
}
pub open spec fn first_char(s: Seq<char>, c: char) -> int decreases s.len() {
    if s.len() == 0 { -1 } else if s[0] == c { 0 } else { let r = first_char(s.drop_first(), c); if r < 0 { -1 } else { r + 1 } }
}
pub open spec fn first_dot(s: Seq<char>) -> int { first_char(s, '.') }
pub proof fn lemma_first_char(s: Seq<char>, c: char)
    ensures -1 <= first_char(s, c) < s.len(),
        first_char(s, c) >= 0 ==> s[first_char(s, c)] == c && forall|i: int| 0 <= i < first_char(s, c) ==> s[i] != c,
        first_char(s, c) < 0 ==> forall|i: int| 0 <= i < s.len() ==> s[i] != c,
    decreases s.len()
{
    if s.len() > 0 && s[0] != c {
        lemma_first_char(s.drop_first(), c);
        let r = first_char(s.drop_first(), c);
        if r >= 0 { assert forall|i: int| 0 <= i < r + 1 implies s[i] != c by { if i > 0 { assert(s.drop_first()[i - 1] == s[i]); } } }
        else { assert forall|i: int| 0 <= i < s.len() implies s[i] != c by { if i > 0 { assert(s.drop_first()[i - 1] == s[i]); } } }
    }
}
pub uninterp spec fn pat_first<P>(p: P, s: Seq<char>) -> int;
pub broadcast axiom fn axiom_pat_char(c: char, s: Seq<char>)
    ensures #[trigger] pat_first::<char>(c, s) == first_char(s, c);
pub assume_specification<P: core::str::pattern::Pattern>[ str::split_once::<P> ](s: &str, p: P) -> (r: Option<(&str, &str)>)
    ensures (match r {
        None => pat_first(p, s@) < 0,
        Some((a, b)) => pat_first(p, s@) >= 0 && a@ == s@.subrange(0, pat_first(p, s@)) && b@ == s@.subrange(pat_first(p, s@) + 1, s@.len() as int),
    });
pub uninterp spec fn pat_prefix<P>(p: P, s: Seq<char>) -> bool;
pub broadcast axiom fn axiom_pat_prefix_char(c: char, s: Seq<char>)
    ensures #[trigger] pat_prefix::<char>(c, s) == (s.len() > 0 && s[0] == c);
pub assume_specification<P: core::str::pattern::Pattern>[ str::starts_with::<P> ](s: &str, p: P) -> (r: bool)
    ensures r == pat_prefix(p, s@);
#[verifier::external_trait_specification]
pub trait ExFromStr: Sized {
    type ExternalTraitSpecificationFor: core::str::FromStr;
    type Err;
    fn from_str(s: &str) -> Result<Self, Self::Err>;
}
#[verifier::external_type_specification]
#[verifier::external_body]
pub struct ExParseIntError(core::num::ParseIntError);
pub uninterp spec fn from_str_spec<F>(s: Seq<char>) -> Option<F>;
pub broadcast axiom fn axiom_from_str_u64(s: Seq<char>)
    ensures #[trigger] from_str_spec::<u64>(s) == parse_u64_spec(s);
pub assume_specification<F: core::str::FromStr>[ str::parse::<F> ](s: &str) -> (r: Result<F, <F as core::str::FromStr>::Err>)
    ensures match r { Ok(v) => from_str_spec::<F>(s@) == Some(v), Err(_) => from_str_spec::<F>(s@) is None };

// decimal rendering of u64 (Display for integers): no sign, no leading zeros, "0" for zero
pub open spec fn dec(n: nat) -> Seq<char> decreases n {
    if n < 10 { seq![(('0' as nat + n) as u8) as char] } else { dec(n / 10).push((('0' as nat + n % 10) as u8) as char) }
}
impl Disp for u64 { open spec fn disp(&self) -> Seq<char> { dec(*self as nat) } }
pub proof fn lemma_dec_digits(n: nat)
    ensures all_digits(dec(n)), digits_val(dec(n)) == n, dec(n).len() >= 1, forall|i: int| 0 <= i < dec(n).len() ==> dec(n)[i] != '.' && dec(n)[i] != '+',
        n > 0 ==> dec(n)[0] != '0',
    decreases n
{
    reveal_with_fuel(digits_val, 2);
    if n < 10 {
        let c = (('0' as nat + n) as u8) as char;
        assert(dec(n) =~= seq![c]);
        assert(dec(n).drop_last() =~= Seq::<char>::empty());
        assert(is_digit(c));
        assert(c as nat - '0' as nat == n);
    } else {
        lemma_dec_digits(n / 10);
        let c = (('0' as nat + n % 10) as u8) as char;
        assert(dec(n).drop_last() =~= dec(n / 10));
        assert(dec(n).last() == c);
        assert(is_digit(c));
        assert(c as nat - '0' as nat == n % 10);
        assert(dec(n)[0] == dec(n / 10)[0]);
    }
}
