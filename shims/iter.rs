// ---------- shim: iteration (R2 desugars `for` onto these; DESIGN.md §2.1) ----------
// One iterator type for every collection: a ghost sequence of the items that will be produced and a
// position. `next` is the only trusted step; each collection's `shim_iter` states which sequence it yields.
#[verifier::external_body]
#[verifier::reject_recursive_types(I)]
pub struct ShimIter<I> { _p: core::marker::PhantomData<I> }
impl<I> ShimIter<I> {
    pub uninterp spec fn seq(&self) -> Seq<I>;
    pub uninterp spec fn pos(&self) -> int;
    pub open spec fn wf(&self) -> bool { 0 <= self.pos() <= self.seq().len() }
    pub open spec fn done(&self) -> bool { self.pos() == self.seq().len() }
    #[verifier::external_body]
    pub fn next(&mut self) -> (r: Option<I>)
        requires old(self).wf()
        ensures final(self).wf(), final(self).seq() == old(self).seq(),
            match r {
                None => old(self).pos() == old(self).seq().len() && final(self).pos() == old(self).pos(),
                Some(x) => old(self).pos() < old(self).seq().len() && final(self).pos() == old(self).pos() + 1
                    && x == old(self).seq()[old(self).pos()],
            },
    { unimplemented!() }
}
pub trait ShimIntoIter: Sized {
    type Item;
    spec fn items(&self) -> Seq<Self::Item>;
    fn shim_iter(self) -> (r: ShimIter<Self::Item>)
        ensures r.seq() == self.items(), r.pos() == 0;
}
pub open spec fn vec_items<'a, T>(v: &'a Vec<T>) -> Seq<&'a T> { Seq::new(v@.len(), |i: int| &v@[i]) }
impl<'a, T> ShimIntoIter for &'a Vec<T> {
    type Item = &'a T;
    open spec fn items(&self) -> Seq<&'a T> { vec_items(*self) }
    #[verifier::external_body]
    fn shim_iter(self) -> (r: ShimIter<&'a T>) { unimplemented!() }
}
impl<T> ShimIntoIter for Vec<T> {
    type Item = T;
    open spec fn items(&self) -> Seq<T> { self@ }
    #[verifier::external_body]
    fn shim_iter(self) -> (r: ShimIter<T>) { unimplemented!() }
}
pub open spec fn slice_items<'a, T>(v: &'a [T]) -> Seq<&'a T> { Seq::new(v@.len(), |i: int| &v@[i]) }
impl<'a, T> ShimIntoIter for &'a [T] {
    type Item = &'a T;
    open spec fn items(&self) -> Seq<&'a T> { slice_items(*self) }
    #[verifier::external_body]
    fn shim_iter(self) -> (r: ShimIter<&'a T>) { unimplemented!() }
}
impl<T, const N: usize> ShimIntoIter for [T; N] {
    type Item = T;
    open spec fn items(&self) -> Seq<T> { self@ }
    #[verifier::external_body]
    fn shim_iter(self) -> (r: ShimIter<T>) { unimplemented!() }
}
