// ---------- shim: BTreeMap = strictly ascending sequence of (key, value) under the key's spec order ----------
pub trait SpecKey: Sized { spec fn key_view(&self) -> (int, Seq<u8>); }
pub open spec fn seq_lt(a: Seq<u8>, b: Seq<u8>) -> bool
    decreases a.len()
{
    if b.len() == 0 { false }
    else if a.len() == 0 { true }
    else if a[0] != b[0] { a[0] < b[0] }
    else { seq_lt(a.drop_first(), b.drop_first()) }
}
pub open spec fn key_lt(a: (int, Seq<u8>), b: (int, Seq<u8>)) -> bool {
    a.0 < b.0 || (a.0 == b.0 && seq_lt(a.1, b.1))
}
pub proof fn lemma_seq_lt_irrefl(a: Seq<u8>)
    ensures !seq_lt(a, a)
    decreases a.len()
{
    if a.len() > 0 { lemma_seq_lt_irrefl(a.drop_first()); }
}
pub struct BTreeMap<K, V> { pub e: Vec<(K, V)> }
impl<K: SpecKey, V> BTreeMap<K, V> {
    pub open spec fn wf(&self) -> bool {
        forall|i: int, j: int| 0 <= i < j < self.e@.len() ==> key_lt(#[trigger] self.e@[i].0.key_view(), #[trigger] self.e@[j].0.key_view())
    }
    pub open spec fn has_key(&self, k: (int, Seq<u8>)) -> bool {
        exists|i: int| 0 <= i < self.e@.len() && #[trigger] self.e@[i].0.key_view() == k
    }
    pub open spec fn idx_of(&self, k: (int, Seq<u8>)) -> int {
        choose|i: int| 0 <= i < self.e@.len() && #[trigger] self.e@[i].0.key_view() == k
    }
    #[verifier::external_body]
    pub fn new() -> (r: Self) ensures r.e@.len() == 0, r.wf() { unimplemented!() }
    #[verifier::external_body]
    pub fn is_empty(&self) -> (r: bool) ensures r == (self.e@.len() == 0) { unimplemented!() }
    #[verifier::external_body]
    pub fn get(&self, k: &K) -> (r: Option<&V>)
        requires self.wf()
        ensures match r {
            Some(v) => exists|i: int| 0 <= i < self.e@.len() && #[trigger] self.e@[i].0.key_view() == k.key_view() && self.e@[i].1 == *v,
            None => forall|i: int| 0 <= i < self.e@.len() ==> #[trigger] self.e@[i].0.key_view() != k.key_view(),
        }
    { unimplemented!() }
    // insert keeps the order; an existing key keeps its position and gets the new value
    #[verifier::external_body]
    pub fn insert(&mut self, k: K, v: V) -> (r: Option<V>)
        requires old(self).wf()
        ensures final(self).wf(),
            final(self).has_key(k.key_view()),
            final(self).e@[final(self).idx_of(k.key_view())].1 == v,
            forall|q: (int, Seq<u8>)| q != k.key_view() ==> (#[trigger] final(self).has_key(q) == old(self).has_key(q)),
            forall|q: (int, Seq<u8>)| q != k.key_view() && #[trigger] old(self).has_key(q) ==>
                final(self).e@[final(self).idx_of(q)].1 == old(self).e@[old(self).idx_of(q)].1,
    { unimplemented!() }
}
pub open spec fn btree_items<'a, K, V>(m: &'a BTreeMap<K, V>) -> Seq<(&'a K, &'a V)> { Seq::new(m.e@.len(), |i: int| (&m.e@[i].0, &m.e@[i].1)) }
impl<'a, K, V> ShimIntoIter for &'a BTreeMap<K, V> {
    type Item = (&'a K, &'a V);
    open spec fn items(&self) -> Seq<(&'a K, &'a V)> { btree_items(*self) }
    #[verifier::external_body]
    fn shim_iter(self) -> (r: ShimIter<(&'a K, &'a V)>) { unimplemented!() }
}
