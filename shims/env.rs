// The contracts assumed here for libcnb::Env (insert / get / contains_key / new) are PROVED for the real code in units/env.vrs (same statements over the real HashMap-backed struct).
// ---------- shim: libcnb::Env (a HashMap<OsString, OsString> wrapper) ----------
pub struct Env { pub m: Ghost<Map<Seq<u8>, Seq<u8>>> }
impl View for Env { type V = Map<Seq<u8>, Seq<u8>>; closed spec fn view(&self) -> Map<Seq<u8>, Seq<u8>> { self.m@ } }
impl Env {
    #[verifier::external_body]
    pub fn new() -> (r: Env) ensures r@ == Map::<Seq<u8>, Seq<u8>>::empty() { unimplemented!() }
    #[verifier::external_body]
    pub fn insert<K: OsLike, V: OsLike>(&mut self, k: K, v: V)
        ensures final(self)@ == old(self)@.insert(k.os_view(), v.os_view())
    { unimplemented!() }
    #[verifier::external_body]
    pub fn get<K: OsLike>(&self, k: K) -> (r: Option<&OsString>)
        ensures match r { Some(v) => self@.contains_key(k.os_view()) && v@ == self@[k.os_view()], None => !self@.contains_key(k.os_view()) }
    { unimplemented!() }
    #[verifier::external_body]
    pub fn contains_key<K: OsLike>(&self, k: K) -> (r: bool)
        ensures r == self@.contains_key(k.os_view())
    { unimplemented!() }
}
impl Clone for Env {
    #[verifier::external_body]
    fn clone(&self) -> (r: Env) ensures r@ == self@ { unimplemented!() }
}
