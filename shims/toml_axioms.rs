// ---------- assumed TOML round-trip facts for layer content metadata (serde-derive + toml crate) ----------
// (A1) what libcnb writes as generic metadata reads back as the same value
pub broadcast axiom fn axiom_toml_generic_roundtrip(v: LayerContentMetadata<GenericMetadata>)
    requires toml_ser::<LayerContentMetadata<GenericMetadata>>(v) is Ok
    ensures #[trigger] toml_de::<LayerContentMetadata<GenericMetadata>>(toml_ser::<LayerContentMetadata<GenericMetadata>>(v)->Ok_0) == Ok::<LayerContentMetadata<GenericMetadata>, TomlDeError>(v);
// (A2) a typed document read generically shows the same `types` table
pub broadcast axiom fn axiom_toml_types_roundtrip<M>(v: LayerContentMetadata<M>)
    requires toml_ser::<LayerContentMetadata<M>>(v) is Ok
    ensures (#[trigger] toml_de::<LayerContentMetadata<GenericMetadata>>(toml_ser::<LayerContentMetadata<M>>(v)->Ok_0)) is Ok,
        toml_de::<LayerContentMetadata<GenericMetadata>>(toml_ser::<LayerContentMetadata<M>>(v)->Ok_0)->Ok_0.types == v.types;
