// ---------- shim: std Option/Result combinators that vstd leaves unspecified ----------
pub assume_specification<T, E, F: FnOnce(T) -> bool>[ Result::<T, E>::is_ok_and ](r: Result<T, E>, f: F) -> (b: bool)
    requires r matches Ok(v) ==> f.requires((v,)),
    ensures b ==> (r matches Ok(v) && f.ensures((v,), true)),
        !b ==> (r is Err || (r matches Ok(v) && f.ensures((v,), false)));
pub assume_specification<T, F: FnOnce(T) -> bool>[ Option::<T>::is_some_and ](o: Option<T>, f: F) -> (b: bool)
    requires o matches Some(v) ==> f.requires((v,)),
    ensures b ==> (o matches Some(v) && f.ensures((v,), true)),
        !b ==> (o is None || (o matches Some(v) && f.ensures((v,), false)));
pub assume_specification<T, E, U, F: FnOnce(T) -> Result<U, E>>[ Result::<T, E>::and_then ](r: Result<T, E>, f: F) -> (o: Result<U, E>)
    requires r matches Ok(v) ==> f.requires((v,)),
    ensures match r { Ok(v) => f.ensures((v,), o), Err(e) => o == Err::<U, E>(e) };
pub assume_specification<T, E>[ Result::<T, E>::unwrap_or ](r: Result<T, E>, d: T) -> (o: T)
    ensures o == (match r { Ok(v) => v, Err(_) => d });
// R26: `String::from(x)` -> `string_from(x)` (vstd gives `From<&str> for String` no specification and its signature cannot be matched)
pub trait StrLike: Sized { spec fn sv(&self) -> Seq<char>; }
impl<'a> StrLike for &'a str { open spec fn sv(&self) -> Seq<char> { self@ } }
impl StrLike for String { open spec fn sv(&self) -> Seq<char> { self@ } }
impl<'a> StrLike for &'a String { open spec fn sv(&self) -> Seq<char> { self@ } }
#[verifier::external_body]
pub fn string_from<T: StrLike>(t: T) -> (r: String) ensures r@ == t.sv() { unimplemented!() }
pub assume_specification<'a, T: Copy>[ Option::<&'a T>::copied ](o: Option<&'a T>) -> (r: Option<T>)
    ensures r == (match o { Some(x) => Some(*x), None => None::<T> });
pub assume_specification<T, P: FnOnce(&T) -> bool>[ Option::<T>::filter ](o: Option<T>, f: P) -> (r: Option<T>)
    requires o matches Some(v) ==> f.requires((&v,)),
    ensures match o { Some(v) => (r == Some(v) && f.ensures((&v,), true)) || (r is None && f.ensures((&v,), false)), None => r is None };
