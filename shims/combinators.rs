// ---------- shim: std Option/Result combinators that vstd leaves unspecified ----------
pub assume_specification<T, E, F: FnOnce(T) -> bool>[ Result::<T, E>::is_ok_and ](r: Result<T, E>, f: F) -> (b: bool)
    requires r matches Ok(v) ==> f.requires((v,)),
    ensures b ==> (r matches Ok(v) && f.ensures((v,), true)),
        !b ==> (r is Err || (r matches Ok(v) && f.ensures((v,), false)));
pub assume_specification<T, F: FnOnce(T) -> bool>[ Option::<T>::is_some_and ](o: Option<T>, f: F) -> (b: bool)
    requires o matches Some(v) ==> f.requires((v,)),
    ensures b ==> (o matches Some(v) && f.ensures((v,), true)),
        !b ==> (o is None || (o matches Some(v) && f.ensures((v,), false)));
