// ---------- shim: file-system world (DESIGN.md §2.2) ----------
// Assumed throughout: no STRICT prefix of a path argument is a symbolic link (paths are physical up to
// their last component); the last component is followed or not exactly as the libc call does.
pub enum Node {
    File(Seq<u8>),
    Dir,
    // final resolution of the link: Some(physical path of a non-link node) or None (dangling / loop)
    Link(Option<PathV>),
}
pub struct Ent { pub node: Node, pub mode: int }
pub struct IoError { pub not_found: bool }
pub struct FsState { pub nodes: Map<PathV, Ent> }
// process-level state the runtime reads and the events it produces (C05/C06); no file-system operation touches it
// Event: a call-back into buildpack code, with what it returned (as far as the outputs depend on it) and the file system it left behind
pub enum DetectOutcome { Error, Fail, Pass(Option<Option<Seq<char>>>) }    // plan: not provided / provided (serialised text, None = unserialisable)
pub struct SbomV { pub format: int, pub data: Seq<u8> }
pub enum BuildOutcome { Error, Pass { launch: Option<Option<Seq<char>>>, store: Option<Option<Seq<char>>>, build_sboms: Seq<SbomV>, launch_sboms: Seq<SbomV> } }
// Layer(kind, decision): a call into a trait-API layer: 0 = existing_layer_strategy (0 keep, 1 recreate, 2 update), 1 = create, 2 = update,
//   3 = migrate_incompatible_metadata (0 recreate, 1 replace metadata); decision -1 = the call-back returned an error
pub enum Event { Detect(DetectOutcome, FsState), Build(BuildOutcome, FsState), OnError, Layer(int, int) }
// fs0: the file system when the process started (ghost; nothing writes it)
pub struct ProcState { pub argv: Seq<Seq<char>>, pub env: Map<Seq<char>, Seq<char>>, pub cwd: Option<PathV>, pub log: Seq<Event>, pub fs0: FsState }
pub struct World { pub st: Ghost<FsState>, pub faults: Ghost<nat>, pub proc: Ghost<ProcState> }
impl FsState {
    pub open spec fn has(&self, p: PathV) -> bool { self.nodes.contains_key(p) }
    pub open spec fn node(&self, p: PathV) -> Node { self.nodes[p].node }
    pub open spec fn mode(&self, p: PathV) -> int { self.nodes[p].mode }
    // tree-shaped: every present non-root path has a present Dir parent.
    // (parent_ok is opaque so that instantiating wf does not create a new `has(..)` term: no matching loop p, parent(p), parent(parent(p)), ...)
    #[verifier::opaque]
    pub open spec fn parent_ok(&self, p: PathV) -> bool { p.len() > 0 ==> self.has(p.drop_last()) && self.node(p.drop_last()) is Dir }
    pub open spec fn wf(&self) -> bool {
        forall|p: PathV| #![trigger self.has(p)] #![trigger self.nodes.contains_key(p)] self.has(p) ==> self.parent_ok(p)
    }
    pub proof fn lemma_parent(&self, p: PathV)
        requires self.wf(), self.has(p), p.len() > 0
        ensures self.has(p.drop_last()), self.node(p.drop_last()) is Dir
    { reveal(FsState::parent_ok); }
    // the node a path denotes when the last component is followed
    pub open spec fn follow(&self, p: PathV) -> Option<PathV> {
        if !self.has(p) { None } else { match self.node(p) { Node::Link(t) => t, _ => Some(p) } }
    }
    pub open spec fn resolves(&self, p: PathV) -> bool { self.follow(p) is Some && self.has(self.follow(p)->0) && !(self.node(self.follow(p)->0) is Link) }
    pub open spec fn is_dir_f(&self, p: PathV) -> bool { self.resolves(p) && self.node(self.follow(p)->0) is Dir }   // stat(2)
    pub open spec fn is_file_f(&self, p: PathV) -> bool { self.resolves(p) && self.node(self.follow(p)->0) is File } // stat(2)
    pub open spec fn is_file(&self, p: PathV) -> bool { self.has(p) && self.node(p) is File }                        // lstat(2)
    pub open spec fn is_dir(&self, p: PathV) -> bool { self.has(p) && self.node(p) is Dir }
    pub open spec fn content(&self, p: PathV) -> Seq<u8> { self.node(p)->File_0 }
    // node, content and mode at q are identical in both states
    pub open spec fn same_at(&self, o: FsState, q: PathV) -> bool { self.has(q) == o.has(q) && (self.has(q) ==> self.nodes[q] == o.nodes[q]) }
    // everything outside d (not d, not below d) is identical in both states
    pub open spec fn same_outside(&self, o: FsState, d: PathV) -> bool {
        forall|p: PathV| #![trigger self.has(p)] #![trigger o.has(p)] #![trigger self.same_at(o, p)] #![trigger self.nodes.contains_key(p)] #![trigger o.nodes.contains_key(p)] !is_prefix(d, p) ==> self.same_at(o, p)
    }
    // like same_outside, but missing ancestors of d may have been created as directories (mkdir -p)
    pub open spec fn same_outside_mk(&self, o: FsState, d: PathV) -> bool {
        forall|p: PathV| #![trigger self.has(p)] #![trigger o.has(p)] #![trigger self.same_at(o, p)] #![trigger self.nodes.contains_key(p)] #![trigger o.nodes.contains_key(p)] !is_prefix(d, p)
            ==> self.same_at(o, p) || (is_prefix(p, d) && !o.has(p) && self.is_dir(p))
    }
    pub open spec fn same_except(&self, o: FsState, t: PathV) -> bool {
        forall|p: PathV| #![trigger self.has(p)] #![trigger o.has(p)] #![trigger self.same_at(o, p)] #![trigger self.nodes.contains_key(p)] #![trigger o.nodes.contains_key(p)] p != t ==> self.same_at(o, p)
    }
    pub open spec fn nothing_under(&self, d: PathV) -> bool { forall|p: PathV| #![trigger self.has(p)] #![trigger self.nodes.contains_key(p)] is_prefix(d, p) ==> !self.has(p) }
    pub open spec fn nothing_strictly_under(&self, d: PathV) -> bool { forall|p: PathV| #![trigger self.has(p)] #![trigger self.nodes.contains_key(p)] strictly_under(d, p) ==> !self.has(p) }
}
#[derive(Structural, PartialEq, Eq)]
pub enum ErrorKind { NotFound, Other }
impl IoError {
    #[verifier::external_body]
    pub fn kind(&self) -> (r: ErrorKind) ensures (r is NotFound) == self.not_found { unimplemented!() }
}
pub struct VarError { pub e: Ghost<int> }
pub mod std {
    pub mod env { pub use super::super::VarError; }
    pub mod result { pub use core::result::Result; }
    pub mod io {
        pub type Error = super::super::IoError;
        pub type Result<T> = core::result::Result<T, super::super::IoError>;
        pub use super::super::ErrorKind;
    }
}
pub struct Permissions { pub m: u32 }
impl Permissions {
    #[verifier::external_body]
    pub fn from_mode(m: u32) -> (r: Permissions) ensures r.m == m { unimplemented!() }
}
pub struct FileType { pub dir: bool, pub link: bool }
impl FileType {
    pub fn is_dir(&self) -> (r: bool) ensures r == self.dir { self.dir }
    pub fn is_symlink(&self) -> (r: bool) ensures r == self.link { self.link }
    pub fn is_file(&self) -> (r: bool) ensures r == (!self.dir && !self.link) { !self.dir && !self.link }
}
pub struct Metadata { pub dir: bool, pub link: bool, pub file: bool }
impl Metadata {
    pub fn is_symlink(&self) -> (r: bool) ensures r == self.link { self.link }
    pub fn is_dir(&self) -> (r: bool) ensures r == self.dir { self.dir }
    pub fn is_file(&self) -> (r: bool) ensures r == self.file { self.file }
}
pub struct DirEntry { pub p: Ghost<PathV> }
impl DirEntry {
    #[verifier::external_body]
    pub fn path(&self) -> (r: PathBuf) ensures r@ == self.p@ { unimplemented!() }
}
// duplicate-freeness of a directory listing (opaque: instantiate with lemma_paths_distinct)
#[verifier::opaque]
pub open spec fn paths_distinct(s: Seq<PathV>) -> bool { forall|i: int, j: int| 0 <= i < j < s.len() ==> s[i] != s[j] }
pub proof fn lemma_paths_distinct(s: Seq<PathV>, i: int, j: int)
    requires paths_distinct(s), 0 <= i < s.len(), 0 <= j < s.len(), i != j
    ensures s[i] != s[j]
{ reveal(paths_distinct); }
// readdir(3) snapshot: entries[i] is Ok(entry p/<name>) or an I/O error met while listing
pub struct ReadDir { pub dir: Ghost<PathV>, pub paths: Ghost<Seq<PathV>> }
pub uninterp spec fn read_dir_items(rd: ReadDir) -> Seq<Result<DirEntry, IoError>>;
impl ShimIntoIter for ReadDir {
    type Item = Result<DirEntry, IoError>;
    open spec fn items(&self) -> Seq<Result<DirEntry, IoError>> { read_dir_items(*self) }
    #[verifier::external_body]
    fn shim_iter(self) -> (r: ShimIter<Result<DirEntry, IoError>>) { unimplemented!() }
}
pub broadcast axiom fn axiom_read_dir_items(rd: ReadDir)
    ensures (#[trigger] read_dir_items(rd)).len() == rd.paths@.len(),
        forall|i: int| 0 <= i < read_dir_items(rd).len() ==> (#[trigger] read_dir_items(rd)[i] matches Ok(e) ==> e.p@ == rd.paths@[i]),
        // MODELLING LIMIT: readdir(3) errors after a successful opendir(3) are not modelled — every listed entry is Ok
        // (an I/O error while listing is reported by fs_read_dir itself); so `entry?` error paths are unreachable in the model
        forall|i: int| 0 <= i < read_dir_items(rd).len() ==> (#[trigger] read_dir_items(rd)[i]) is Ok;

impl World {
    pub open spec fn fs(&self) -> FsState { self.st@ }

    // ---- queries: deterministic in the state, never fault (stat errors read as `false`, as std does)
    #[verifier::external_body]
    pub fn path_exists<P: AsRef<Path>>(&mut self, p: &P) -> (r: bool)   // stat(2): follows; dangling link => false
        ensures final(self).proc@ == old(self).proc@, final(self).fs() == old(self).fs(), final(self).faults@ == old(self).faults@, r == old(self).fs().resolves(p.path_view())
    { unimplemented!() }
    #[verifier::external_body]
    pub fn path_is_dir<P: AsRef<Path>>(&mut self, p: &P) -> (r: bool)   // stat(2): follows
        ensures final(self).proc@ == old(self).proc@, final(self).fs() == old(self).fs(), final(self).faults@ == old(self).faults@, r == old(self).fs().is_dir_f(p.path_view())
    { unimplemented!() }
    #[verifier::external_body]
    pub fn path_is_file<P: AsRef<Path>>(&mut self, p: &P) -> (r: bool)  // stat(2): follows
        ensures final(self).proc@ == old(self).proc@, final(self).fs() == old(self).fs(), final(self).faults@ == old(self).faults@, r == old(self).fs().is_file_f(p.path_view())
    { unimplemented!() }
    // d_type / lstat(2): does not follow
    #[verifier::external_body]
    pub fn path_file_type(&mut self, e: &DirEntry) -> (r: Result<FileType, IoError>)
        ensures final(self).proc@ == old(self).proc@, final(self).fs() == old(self).fs(), final(self).faults@ >= old(self).faults@,
            r is Err ==> final(self).faults@ > old(self).faults@ || !old(self).fs().has(e.p@),
            r is Err && final(self).faults@ > old(self).faults@ ==> !r->Err_0.not_found,
            r matches Ok(ft) ==> final(self).faults@ == old(self).faults@ && old(self).fs().has(e.p@)
                && ft.dir == (old(self).fs().node(e.p@) is Dir) && ft.link == (old(self).fs().node(e.p@) is Link),
    { unimplemented!() }

    // lstat(2): does not follow the last component
    #[verifier::external_body]
    pub fn path_symlink_metadata<P: AsRef<Path>>(&mut self, p: &P) -> (r: Result<Metadata, IoError>)
        ensures final(self).proc@ == old(self).proc@, final(self).fs() == old(self).fs(), final(self).faults@ >= old(self).faults@,
            r matches Ok(m) ==> final(self).faults@ == old(self).faults@ && old(self).fs().has(p.path_view())
                && m.dir == (old(self).fs().node(p.path_view()) is Dir) && m.link == (old(self).fs().node(p.path_view()) is Link)
                && m.file == (old(self).fs().node(p.path_view()) is File),
            r is Err && final(self).faults@ == old(self).faults@ ==> !old(self).fs().has(p.path_view()) && r->Err_0.not_found,
            r is Err && final(self).faults@ > old(self).faults@ ==> !r->Err_0.not_found,
    { unimplemented!() }

    // Path::metadata (stat(2): follows) and DirEntry::metadata (lstat(2)-like: does NOT follow), by receiver type
    #[verifier::external_body]
    pub fn path_metadata<T: MetaTarget>(&mut self, t: &T) -> (r: Result<Metadata, IoError>)
        ensures final(self).proc@ == old(self).proc@, final(self).fs() == old(self).fs(), final(self).faults@ >= old(self).faults@,
            r matches Ok(m) ==> final(self).faults@ == old(self).faults@ && (if t.mt_follows() {
                    old(self).fs().resolves(t.mt_path()) && !m.link
                    && m.dir == (old(self).fs().node(old(self).fs().follow(t.mt_path())->0) is Dir)
                    && m.file == (old(self).fs().node(old(self).fs().follow(t.mt_path())->0) is File)
                } else {
                    old(self).fs().has(t.mt_path()) && m.dir == (old(self).fs().node(t.mt_path()) is Dir)
                    && m.link == (old(self).fs().node(t.mt_path()) is Link) && m.file == (old(self).fs().node(t.mt_path()) is File)
                }),
            r is Err && final(self).faults@ == old(self).faults@ ==> r->Err_0.not_found
                && (if t.mt_follows() { !old(self).fs().resolves(t.mt_path()) } else { !old(self).fs().has(t.mt_path()) }),
            r is Err && final(self).faults@ > old(self).faults@ ==> !r->Err_0.not_found,
    { unimplemented!() }

    // std::fs::metadata(path): stat(2), follows the last component
    #[verifier::external_body]
    pub fn fs_metadata<P: AsRef<Path>>(&mut self, p: P) -> (r: Result<Metadata, IoError>)
        ensures final(self).proc@ == old(self).proc@, final(self).fs() == old(self).fs(), final(self).faults@ >= old(self).faults@,
            r matches Ok(m) ==> final(self).faults@ == old(self).faults@ && old(self).fs().resolves(p.path_view()) && !m.link
                && m.dir == (old(self).fs().node(old(self).fs().follow(p.path_view())->0) is Dir)
                && m.file == (old(self).fs().node(old(self).fs().follow(p.path_view())->0) is File),
            r is Err && final(self).faults@ == old(self).faults@ ==> r->Err_0.not_found && !old(self).fs().resolves(p.path_view()),
            r is Err && final(self).faults@ > old(self).faults@ ==> !r->Err_0.not_found,
    { unimplemented!() }

    // ---- chmod(2): follows a symlink in the last component; only the mode of the followed node changes
    #[verifier::external_body]
    pub fn fs_set_permissions<P: AsRef<Path>>(&mut self, p: P, perm: Permissions) -> (r: Result<(), IoError>)
        requires old(self).fs().wf()
        ensures final(self).proc@ == old(self).proc@, final(self).fs().wf(), final(self).faults@ >= old(self).faults@,
            r is Ok ==> final(self).faults@ == old(self).faults@ && old(self).fs().resolves(p.path_view())
                && final(self).fs().nodes == old(self).fs().nodes.insert(old(self).fs().follow(p.path_view())->0,
                        Ent { node: old(self).fs().node(old(self).fs().follow(p.path_view())->0), mode: perm.m as int }),
            r is Err ==> final(self).fs() == old(self).fs(),
            r is Err && final(self).faults@ == old(self).faults@ ==> !old(self).fs().resolves(p.path_view()) && r->Err_0.not_found,
            r is Err && final(self).faults@ > old(self).faults@ ==> !r->Err_0.not_found,
    { unimplemented!() }

    // ---- opendir(3)+readdir(3): follows a symlink in the last component; duplicate-free snapshot of the children
    #[verifier::external_body]
    pub fn fs_read_dir<P: AsRef<Path>>(&mut self, p: P) -> (r: Result<ReadDir, IoError>)
        ensures final(self).proc@ == old(self).proc@, final(self).fs() == old(self).fs(), final(self).faults@ >= old(self).faults@,
            r is Err ==> final(self).faults@ > old(self).faults@ || !old(self).fs().is_dir_f(p.path_view()),
            r is Err && final(self).faults@ == old(self).faults@ ==> (r->Err_0.not_found <==> !old(self).fs().resolves(p.path_view())),
            r is Err && final(self).faults@ > old(self).faults@ ==> !r->Err_0.not_found,
            r matches Ok(rd) ==> final(self).faults@ == old(self).faults@ && old(self).fs().is_dir_f(p.path_view())
                && rd.dir@ == p.path_view()
                // entry paths are p/<name>, one per child of the followed directory
                && (forall|i: int| 0 <= i < rd.paths@.len() ==> child_of(p.path_view(), #[trigger] rd.paths@[i]))
                && paths_distinct(rd.paths@)
                && (forall|c: PathV| child_of(old(self).fs().follow(p.path_view())->0, c) && #[trigger] old(self).fs().has(c) ==>
                      exists|i: int| 0 <= i < rd.paths@.len() && #[trigger] rd.paths@[i] == p.path_view().push(c.last()))
                && (forall|i: int| 0 <= i < rd.paths@.len() ==>
                      old(self).fs().has(old(self).fs().follow(p.path_view())->0.push((#[trigger] rd.paths@[i]).last())))
                // (consequence for a directory that is not reached through a link: the listed paths exist)
                && (old(self).fs().follow(p.path_view()) == Some(p.path_view()) ==> forall|i: int| 0 <= i < rd.paths@.len() ==> old(self).fs().has(#[trigger] rd.paths@[i])),
    { unimplemented!() }

    // ---- unlink(2): does not follow the last component; refuses directories
    #[verifier::external_body]
    pub fn fs_remove_file<P: AsRef<Path>>(&mut self, p: P) -> (r: Result<(), IoError>)
        requires old(self).fs().wf()
        ensures final(self).proc@ == old(self).proc@, final(self).fs().wf(), final(self).faults@ >= old(self).faults@,
            r is Ok ==> final(self).faults@ == old(self).faults@ && old(self).fs().has(p.path_view()) && !(old(self).fs().node(p.path_view()) is Dir)
                && final(self).fs().nodes == old(self).fs().nodes.remove(p.path_view())
                // (consequence of wf: a non-directory has no children)
                && final(self).fs().nothing_under(p.path_view()),
            r is Err ==> final(self).fs() == old(self).fs(),
            r is Err && final(self).faults@ == old(self).faults@ ==> (r->Err_0.not_found <==> !old(self).fs().has(p.path_view())),
            r is Err && final(self).faults@ > old(self).faults@ ==> !r->Err_0.not_found,
    { unimplemented!() }

    // ---- rmdir(2): does not follow; directory must be empty
    #[verifier::external_body]
    pub fn fs_remove_dir<P: AsRef<Path>>(&mut self, p: P) -> (r: Result<(), IoError>)
        requires old(self).fs().wf()
        ensures final(self).proc@ == old(self).proc@, final(self).fs().wf(), final(self).faults@ >= old(self).faults@,
            r is Ok ==> final(self).faults@ == old(self).faults@ && old(self).fs().is_dir(p.path_view())
                && old(self).fs().nothing_strictly_under(p.path_view())
                && final(self).fs().nodes == old(self).fs().nodes.remove(p.path_view()),
            r is Err ==> final(self).fs() == old(self).fs(),
            r is Err && final(self).faults@ == old(self).faults@ ==> (r->Err_0.not_found <==> !old(self).fs().has(p.path_view())),
            r is Err && final(self).faults@ > old(self).faults@ ==> !r->Err_0.not_found,
    { unimplemented!() }

    // ---- rm -r (std::fs::remove_dir_all: a symlink argument is removed itself, never followed)
    #[verifier::external_body]
    pub fn fs_remove_dir_all<P: AsRef<Path>>(&mut self, p: P) -> (r: Result<(), IoError>)
        requires old(self).fs().wf()
        ensures final(self).proc@ == old(self).proc@, final(self).fs().wf(), final(self).fs().same_outside(old(self).fs(), p.path_view()),
            final(self).faults@ >= old(self).faults@,
            r is Ok ==> final(self).fs().nothing_under(p.path_view()) && final(self).faults@ == old(self).faults@,
            r is Err && final(self).faults@ == old(self).faults@ ==> final(self).fs() == old(self).fs(),
    { unimplemented!() }

    // ---- mkdir -p: only missing prefixes of p are added, nothing existing changes
    #[verifier::external_body]
    pub fn fs_create_dir_all<P: AsRef<Path>>(&mut self, p: P) -> (r: Result<(), IoError>)
        requires old(self).fs().wf()
        ensures final(self).proc@ == old(self).proc@, final(self).fs().wf(), final(self).faults@ >= old(self).faults@,
            forall|q: PathV| #[trigger] old(self).fs().has(q) ==> final(self).fs().has(q) && final(self).fs().nodes[q] == old(self).fs().nodes[q],
            forall|q: PathV| #[trigger] final(self).fs().has(q) && !old(self).fs().has(q) ==> is_prefix(q, p.path_view()) && final(self).fs().node(q) is Dir,
            r is Ok ==> final(self).fs().is_dir_f(p.path_view()) && final(self).faults@ == old(self).faults@,
            r is Err && final(self).faults@ == old(self).faults@ ==> final(self).fs() == old(self).fs(),
    { unimplemented!() }

    // ---- std::fs::copy: opens the source (follows), then creates/truncates the target and copies bytes and permission bits.
    // (a target that is a symlink would be written through; excluded by the physical-path assumption for files libcnb writes)
    #[verifier::external_body]
    pub fn fs_copy<P: AsRef<Path>, Q: AsRef<Path>>(&mut self, from: P, to: Q) -> (r: Result<u64, IoError>)
        requires old(self).fs().wf()
        ensures final(self).proc@ == old(self).proc@, final(self).fs().wf(), final(self).faults@ >= old(self).faults@,
            r is Ok ==> final(self).faults@ == old(self).faults@ && old(self).fs().is_file_f(from.path_view()) && to.path_view().len() > 0
                && old(self).fs().is_dir(to.path_view().drop_last())
                && !(old(self).fs().has(to.path_view()) && old(self).fs().node(to.path_view()) is Dir)
                && final(self).fs().has(to.path_view())
                && final(self).fs().node(to.path_view()) == Node::File(old(self).fs().content(old(self).fs().follow(from.path_view())->0))
                && final(self).fs().same_except(old(self).fs(), to.path_view()),
            r is Err ==> final(self).fs().same_except(old(self).fs(), to.path_view()),
            r is Err && final(self).faults@ == old(self).faults@ ==> final(self).fs() == old(self).fs(),
    { unimplemented!() }

    // ---- symlink(2) with a RELATIVE one-component target (the only use in /repo: bin/detect -> "build"): the link must not exist, its
    // parent must be a directory; the new link resolves to the sibling it names (Some(physical sibling) when that is a non-link node)
    #[verifier::external_body]
    pub fn fs_symlink<P: AsRef<Path>, Q: AsRef<Path>>(&mut self, original: P, link: Q) -> (r: Result<(), IoError>)
        requires old(self).fs().wf(), original.path_view().len() == 1, is_component(original.path_view()[0])
        ensures final(self).proc@ == old(self).proc@, final(self).fs().wf(), final(self).faults@ >= old(self).faults@,
            r is Ok ==> final(self).faults@ == old(self).faults@ && link.path_view().len() > 0 && !old(self).fs().has(link.path_view())
                && old(self).fs().is_dir(link.path_view().drop_last())
                && final(self).fs().has(link.path_view())
                && final(self).fs().node(link.path_view()) == Node::Link({ let sib = link.path_view().drop_last().push(original.path_view()[0]);
                        if old(self).fs().has(sib) && !(old(self).fs().node(sib) is Link) { Some(sib) } else if old(self).fs().has(sib) { old(self).fs().node(sib)->Link_0 } else { None } })
                && final(self).fs().same_except(old(self).fs(), link.path_view()),
            r is Err ==> final(self).fs() == old(self).fs(),
    { unimplemented!() }

    // ---- open(O_CREAT|O_TRUNC|O_WRONLY)+write_all: parent must be a directory, target must not be one.
    // (an existing symlink target would be written through; excluded by the physical-path assumption for files libcnb writes)
    #[verifier::external_body]
    pub fn fs_write<P: AsRef<Path>, D: BytesLike>(&mut self, p: P, data: D) -> (r: Result<(), IoError>)
        requires old(self).fs().wf()
        ensures final(self).proc@ == old(self).proc@, final(self).fs().wf(), final(self).faults@ >= old(self).faults@,
            r is Ok ==> final(self).faults@ == old(self).faults@ && p.path_view().len() > 0
                && old(self).fs().is_dir(p.path_view().drop_last())
                && !(old(self).fs().has(p.path_view()) && old(self).fs().node(p.path_view()) is Dir)
                && final(self).fs().has(p.path_view()) && final(self).fs().node(p.path_view()) == Node::File(data.bytes())
                && final(self).fs().same_except(old(self).fs(), p.path_view()),
            // a failed write may leave a truncated/partial file at p, nothing else
            r is Err ==> final(self).fs().same_except(old(self).fs(), p.path_view()),
            r is Err && final(self).faults@ == old(self).faults@ ==> final(self).fs() == old(self).fs(),
    { unimplemented!() }

    // ---- read(2) whole file: follows the last component
    #[verifier::external_body]
    pub fn fs_read<P: AsRef<Path>>(&mut self, p: P) -> (r: Result<Vec<u8>, IoError>)
        ensures final(self).proc@ == old(self).proc@, final(self).fs() == old(self).fs(), final(self).faults@ >= old(self).faults@,
            r matches Ok(v) ==> final(self).faults@ == old(self).faults@ && old(self).fs().is_file_f(p.path_view())
                && v@ == old(self).fs().content(old(self).fs().follow(p.path_view())->0),
            r is Err && final(self).faults@ == old(self).faults@ ==> !old(self).fs().is_file_f(p.path_view()),
            r is Err && final(self).faults@ == old(self).faults@ ==> (r->Err_0.not_found <==> !old(self).fs().resolves(p.path_view())),
            r is Err && final(self).faults@ > old(self).faults@ ==> !r->Err_0.not_found,
    { unimplemented!() }
    // non-UTF-8 content is a deterministic InvalidData error (not an environmental fault)
    #[verifier::external_body]
    pub fn fs_read_to_string<P: AsRef<Path>>(&mut self, p: P) -> (r: Result<String, IoError>)
        ensures final(self).proc@ == old(self).proc@, final(self).fs() == old(self).fs(), final(self).faults@ >= old(self).faults@,
            r matches Ok(s) ==> final(self).faults@ == old(self).faults@ && old(self).fs().is_file_f(p.path_view())
                && utf8(s@) == old(self).fs().content(old(self).fs().follow(p.path_view())->0),
            r is Err && final(self).faults@ == old(self).faults@ ==> (!old(self).fs().is_file_f(p.path_view())
                || forall|s: Seq<char>| utf8(s) != old(self).fs().content(old(self).fs().follow(p.path_view())->0)),
            r is Err && final(self).faults@ == old(self).faults@ ==> (r->Err_0.not_found <==> !old(self).fs().resolves(p.path_view())),
            r is Err && final(self).faults@ > old(self).faults@ ==> !r->Err_0.not_found,
    { unimplemented!() }
}
pub trait MetaTarget { spec fn mt_path(&self) -> PathV; spec fn mt_follows(&self) -> bool; }
impl MetaTarget for PathBuf { open spec fn mt_path(&self) -> PathV { self@ } open spec fn mt_follows(&self) -> bool { true } }
impl MetaTarget for DirEntry { open spec fn mt_path(&self) -> PathV { self.p@ } open spec fn mt_follows(&self) -> bool { false } }
pub trait BytesLike: Sized { spec fn bytes(&self) -> Seq<u8>; }
impl<'a> BytesLike for &'a str { open spec fn bytes(&self) -> Seq<u8> { utf8(self@) } }
impl BytesLike for String { open spec fn bytes(&self) -> Seq<u8> { utf8(self@) } }
impl<'a> BytesLike for &'a String { open spec fn bytes(&self) -> Seq<u8> { utf8(self@) } }
impl<'a> BytesLike for &'a [u8] { open spec fn bytes(&self) -> Seq<u8> { self@ } }
impl<'a> BytesLike for &'a Vec<u8> { open spec fn bytes(&self) -> Seq<u8> { self@ } }

pub proof fn lemma_absent_desc(fs: FsState, d: PathV, p: PathV)
    requires fs.wf(), !fs.has(d), is_prefix(d, p)
    ensures !fs.has(p)
    decreases p.len()
{
    reveal(FsState::parent_ok);
    if p.len() == d.len() { assert(p =~= d); }
    else if fs.has(p) {
        assert(is_prefix(d, p.drop_last()));
        lemma_absent_desc(fs, d, p.drop_last());
    }
}
pub proof fn lemma_absent_subtree(fs: FsState, d: PathV)
    requires fs.wf(), !fs.has(d) || fs.nothing_under(d)
    ensures fs.nothing_under(d)
{
    if !fs.has(d) {
        assert forall|p: PathV| is_prefix(d, p) implies !#[trigger] fs.has(p) by { lemma_absent_desc(fs, d, p); }
    }
}
// children of a non-directory do not exist
pub proof fn lemma_nondir_has_no_children(fs: FsState, d: PathV, p: PathV)
    requires fs.wf(), fs.has(d), !(fs.node(d) is Dir), strictly_under(d, p)
    ensures !fs.has(p)
    decreases p.len()
{
    reveal(FsState::parent_ok);
    if fs.has(p) {
        if p.len() == d.len() + 1 { assert(p.drop_last() =~= d); }
        else { assert(strictly_under(d, p.drop_last())); lemma_nondir_has_no_children(fs, d, p.drop_last()); }
    }
}
// every prefix of an existing path exists (and is a directory when it is a strict prefix)
pub proof fn lemma_prefixes_exist(fs: FsState, p: PathV, q: PathV)
    requires fs.wf(), fs.has(p), is_prefix(q, p)
    ensures fs.has(q), q.len() < p.len() ==> fs.node(q) is Dir
    decreases p.len()
{
    reveal(FsState::parent_ok);
    if q.len() == p.len() { assert(q =~= p); }
    else {
        assert(is_prefix(q, p.drop_last()));
        lemma_prefixes_exist(fs, p.drop_last(), q);
        if q.len() == p.len() - 1 { assert(q =~= p.drop_last()); }
    }
}
