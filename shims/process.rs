// ---------- shim: the process interface of the runtime (argv, environment, cwd, exit) ----------
pub open spec fn penv(p: ProcState, k: Seq<char>) -> Option<Seq<char>> { if p.env.contains_key(k) { Some(p.env[k]) } else { None } }
impl World {
    pub open spec fn env_of(&self, k: Seq<char>) -> Option<Seq<char>> { penv(self.proc@, k) }
    // std::env::var: Ok(value) iff the variable is set (and unicode; non-unicode values are outside the model)
    #[verifier::external_body]
    pub fn env_var(&mut self, k: &str) -> (r: Result<String, VarError>)
        ensures final(self).fs() == old(self).fs(), final(self).faults@ == old(self).faults@, final(self).proc@ == old(self).proc@,
            match r { Ok(v) => old(self).env_of(k@) == Some(v@), Err(_) => old(self).env_of(k@) is None }
    { unimplemented!() }
    #[verifier::external_body]
    pub fn env_args(&mut self) -> (r: ArgsIter)
        ensures final(self).fs() == old(self).fs(), final(self).faults@ == old(self).faults@, final(self).proc@ == old(self).proc@, r.a@ == old(self).proc@.argv
    { unimplemented!() }
    // std::env::current_dir: the working directory, or an I/O error (counted as an environmental fault)
    #[verifier::external_body]
    pub fn env_current_dir(&mut self) -> (r: Result<PathBuf, IoError>)
        ensures final(self).fs() == old(self).fs(), final(self).faults@ >= old(self).faults@, final(self).proc@ == old(self).proc@,
            r matches Ok(p) ==> final(self).faults@ == old(self).faults@ && old(self).proc@.cwd == Some(p@),
            r is Err ==> final(self).faults@ > old(self).faults@ || old(self).proc@.cwd is None,
    { unimplemented!() }
}
pub struct ArgsIter { pub a: Ghost<Seq<Seq<char>>> }
impl ArgsIter {
    #[verifier::external_body]
    pub fn collect(self) -> (r: Vec<String>) ensures r@.len() == self.a@.len(), forall|i: int| 0 <= i < r@.len() ==> (#[trigger] r@[i])@ == self.a@[i] { unimplemented!() }
}
// slice::first / Path::new / Option::and_then / Result::inspect_err as the runtime uses them
impl PathBuf {
    #[verifier::external_body]
    pub fn new<'a>(a: &'a String) -> (r: &'a Path) ensures r@ == path_of_text(a@) { unimplemented!() }
}
pub assume_specification<T, E, F: FnOnce(&E)>[ Result::<T, E>::inspect_err ](r: Result<T, E>, f: F) -> (o: Result<T, E>)
    requires r matches Err(e) ==> f.requires((&e,)),
    ensures o == r;
