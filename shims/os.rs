// ---------- shim: OsString / OsStr as byte sequences (unix) ----------
pub struct OsString { pub b: Vec<u8> }
impl View for OsString { type V = Seq<u8>; open spec fn view(&self) -> Seq<u8> { self.b@ } }
// everything the real code passes where std wants `AsRef<OsStr>` / `Into<OsString>`
pub trait OsLike: Sized { spec fn os_view(&self) -> Seq<u8>; }
impl OsLike for OsString { open spec fn os_view(&self) -> Seq<u8> { self@ } }
impl<'a> OsLike for &'a OsString { open spec fn os_view(&self) -> Seq<u8> { (**self)@ } }
impl<'a> OsLike for &'a str { open spec fn os_view(&self) -> Seq<u8> { utf8(self@) } }
impl<'a> OsLike for &'a String { open spec fn os_view(&self) -> Seq<u8> { utf8(self@) } }
impl OsLike for String { open spec fn os_view(&self) -> Seq<u8> { utf8(self@) } }
// a str is determined by its characters (Verus compares string-literal patterns on the str value)
pub broadcast axiom fn axiom_str_ext(a: &str, b: &str)
    requires #[trigger] a@ == #[trigger] b@ ensures a == b;
// UTF-8 encoding of a string: uninterpreted, injective, homomorphic over concatenation
pub uninterp spec fn utf8(s: Seq<char>) -> Seq<u8>;
// injectivity stated through the decoder (one single-term trigger: instantiations stay linear, a two-trigger
// `utf8(a) == utf8(b) ==> a == b` made proofs flaky through quadratic matching)
pub uninterp spec fn utf8_dec(b: Seq<u8>) -> Seq<char>;
pub broadcast axiom fn axiom_utf8_injective(a: Seq<char>)
    ensures utf8_dec(#[trigger] utf8(a)) == a;
pub broadcast axiom fn axiom_utf8_concat(a: Seq<char>, b: Seq<char>)
    ensures #[trigger] utf8(a + b) == utf8(a) + utf8(b);
pub open spec fn ascii(s: Seq<char>) -> bool { forall|i: int| 0 <= i < s.len() ==> (#[trigger] s[i] as u32) < 128 }
pub broadcast axiom fn axiom_utf8_ascii(s: Seq<char>)
    requires ascii(s)
    ensures #[trigger] utf8(s) == s.map_values(|c: char| c as u8);
pub broadcast axiom fn axiom_utf8_len(a: Seq<char>)
    ensures (#[trigger] utf8(a)).len() >= a.len(), a.len() == 0 ==> utf8(a).len() == 0;
impl OsString {
    #[verifier::external_body]
    pub fn new() -> (r: OsString) ensures r@ == Seq::<u8>::empty() { unimplemented!() }
    #[verifier::external_body]
    pub fn is_empty(&self) -> (r: bool) ensures r == (self@.len() == 0) { unimplemented!() }
    #[verifier::external_body]
    pub fn push<T: OsLike>(&mut self, t: T) ensures final(self)@ == old(self)@ + t.os_view() { unimplemented!() }
    #[verifier::external_body]
    pub fn from_vec(v: Vec<u8>) -> (r: OsString) ensures r@ == v@ { unimplemented!() }
    #[verifier::external_body]
    pub fn as_bytes(&self) -> (r: &[u8]) ensures r@ == self@ { unimplemented!() }
}
impl Clone for OsString {
    #[verifier::external_body]
    fn clone(&self) -> (r: OsString) ensures r@ == self@ { unimplemented!() }
}
impl Default for OsString {
    #[verifier::external_body]
    fn default() -> (r: OsString) ensures r@ == Seq::<u8>::empty() { unimplemented!() }
}
impl FromSpecImpl<&OsString> for OsString {
    open spec fn obeys_from_spec() -> bool { true }
    open spec fn from_spec(o: &OsString) -> OsString { *o }
}
impl From<&OsString> for OsString {
    #[verifier::external_body]
    fn from(o: &OsString) -> (r: OsString) { unimplemented!() }
}
pub type OsStr = OsString;
impl OsString {
    // Some(s) iff the bytes are valid UTF-8, and then s encodes to exactly these bytes
    #[verifier::external_body]
    pub fn to_str(&self) -> (r: Option<&str>)
        ensures match r { Some(s) => utf8(s@) == self@, None => forall|s: Seq<char>| utf8(s) != self@ }
    { unimplemented!() }
    #[verifier::external_body]
    pub fn to_os_string(&self) -> (r: OsString) ensures r@ == self@ { unimplemented!() }
}
// std: `impl<T> From<T> for T` is the identity (vstd gives the reflexive conversion no specification)
pub broadcast axiom fn axiom_into_reflexive_osstring(o: OsString)
    ensures <OsString as IntoSpec<OsString>>::obeys_into_spec(), #[trigger] IntoSpec::<OsString>::into_spec(o) == o;
pub axiom fn axiom_obeys_into_reflexive_osstring()
    ensures <OsString as IntoSpec<OsString>>::obeys_into_spec();
pub uninterp spec fn os_of_str(s: Seq<char>) -> OsString;
pub broadcast axiom fn axiom_os_of_str(s: Seq<char>) ensures (#[trigger] os_of_str(s))@ == utf8(s);
impl<'a> FromSpecImpl<&'a str> for OsString {
    open spec fn obeys_from_spec() -> bool { true }
    open spec fn from_spec(o: &'a str) -> OsString { os_of_str(o@) }
}
impl<'a> From<&'a str> for OsString {
    #[verifier::external_body]
    fn from(o: &'a str) -> (r: OsString) { unimplemented!() }
}
impl FromSpecImpl<String> for OsString {
    open spec fn obeys_from_spec() -> bool { true }
    open spec fn from_spec(o: String) -> OsString { os_of_str(o@) }
}
impl From<String> for OsString {
    #[verifier::external_body]
    fn from(o: String) -> (r: OsString) { unimplemented!() }
}
