// ---------- specification vocabulary for layer directories (C01, C02, C11) ----------
pub struct LayerName(pub String);
impl LayerName {
    pub fn as_str(&self) -> (r: &str) ensures r@ == self.0@ { self.0.as_str() }
}
impl Clone for LayerName {
    #[verifier::external_body]
    fn clone(&self) -> (r: LayerName) ensures r == *self { unimplemented!() }
}
impl Disp for LayerName { open spec fn disp(&self) -> Seq<char> { self.0@ } }
impl core::ops::Deref for LayerName {
    type Target = str;
    #[verifier::external_body]
    fn deref(&self) -> (r: &str) ensures r@ == self.0@ { unimplemented!() }
}

pub open spec fn dir_of(layers: PathV, name: Seq<char>) -> PathV { layers.push(utf8(name)) }
pub open spec fn toml_of(layers: PathV, name: Seq<char>) -> PathV { layers.push(utf8(name + ".toml"@)) }
pub open spec fn sbom_suffix(k: int) -> Seq<char> { if k == 0 { "cdx.json"@ } else if k == 1 { "spdx.json"@ } else { "syft.json"@ } }
pub open spec fn sbom_of(layers: PathV, name: Seq<char>, k: int) -> PathV { layers.push(utf8(name + ".sbom."@ + sbom_suffix(k))) }
// The claims are made for layer names that are ONE path component and whose derived file names are
// components too (LayerName's regex admits '/', which is outside what this model decides).
pub open spec fn name_ok(name: Seq<char>) -> bool {
    &&& is_component(utf8(name))
    &&& is_component(utf8(name + ".toml"@))
    &&& forall|k: int| 0 <= k < 3 ==> is_component(utf8(name + ".sbom."@ + #[trigger] sbom_suffix(k)))
}
pub proof fn lemma_layer_paths_distinct(layers: PathV, name: Seq<char>)
    ensures
        dir_of(layers, name) != toml_of(layers, name),
        forall|k: int| 0 <= k < 3 ==> #[trigger] sbom_of(layers, name, k) != dir_of(layers, name) && sbom_of(layers, name, k) != toml_of(layers, name),
        forall|k: int, j: int| 0 <= k < 3 && 0 <= j < 3 && k != j ==> #[trigger] sbom_of(layers, name, k) != #[trigger] sbom_of(layers, name, j),
        !is_prefix(dir_of(layers, name), toml_of(layers, name)),
        forall|k: int| 0 <= k < 3 ==> !is_prefix(dir_of(layers, name), #[trigger] sbom_of(layers, name, k)),
{
    broadcast use axiom_utf8_injective;
    reveal_strlit(".toml"); reveal_strlit(".sbom."); reveal_strlit("cdx.json"); reveal_strlit("spdx.json"); reveal_strlit("syft.json");
    let d = dir_of(layers, name); let t = toml_of(layers, name);
    assert(d.last() == utf8(name)); assert(t.last() == utf8(name + ".toml"@));
    assert((name + ".toml"@).len() != name.len());
    assert forall|k: int| 0 <= k < 3 implies #[trigger] sbom_of(layers, name, k) != d && sbom_of(layers, name, k) != t
        && !is_prefix(d, sbom_of(layers, name, k)) by {
        let s = sbom_of(layers, name, k);
        assert(s.last() == utf8(name + ".sbom."@ + sbom_suffix(k)));
        let x = name + ".sbom."@ + sbom_suffix(k);
        assert(x.len() > name.len() + 5);
        assert(x != name);
        if x == name + ".toml"@ { assert(x[name.len() as int + 1] == (name + ".toml"@)[name.len() as int + 1]); assert(false); }
        if is_prefix(d, s) { assert(s[d.len() - 1] == d[d.len() - 1]); }
    }
    assert forall|k: int, j: int| 0 <= k < 3 && 0 <= j < 3 && k != j implies #[trigger] sbom_of(layers, name, k) != #[trigger] sbom_of(layers, name, j) by {
        let x = name + ".sbom."@ + sbom_suffix(k); let y = name + ".sbom."@ + sbom_suffix(j);
        assert(sbom_of(layers, name, k).last() == utf8(x)); assert(sbom_of(layers, name, j).last() == utf8(y));
        if x == y { assert(x[name.len() as int + 6] == y[name.len() as int + 6]); assert(x[name.len() as int + 7] == y[name.len() as int + 7]); assert(false); }
    }
    if is_prefix(d, t) { assert(t[d.len() - 1] == d[d.len() - 1]); }
}
// q belongs to the layer: <layers>/<name> and below, <layers>/<name>.toml, the three SBOM files
pub open spec fn in_layer(layers: PathV, name: Seq<char>, q: PathV) -> bool {
    is_prefix(dir_of(layers, name), q) || q == toml_of(layers, name) || q == sbom_of(layers, name, 0) || q == sbom_of(layers, name, 1) || q == sbom_of(layers, name, 2)
}
// "other layers (and everything else) are untouched"
pub open spec fn layer_frame(f0: FsState, f1: FsState, layers: PathV, name: Seq<char>) -> bool {
    forall|q: PathV| #![trigger f1.has(q)] #![trigger f0.has(q)] #![trigger f1.same_at(f0, q)] #![trigger f1.nodes.contains_key(q)] #![trigger f0.nodes.contains_key(q)]
        !in_layer(layers, name, q) ==> f1.same_at(f0, q)
}
pub open spec fn layer_gone(f: FsState, layers: PathV, name: Seq<char>) -> bool {
    f.nothing_under(dir_of(layers, name)) && !f.has(toml_of(layers, name))
        && !f.has(sbom_of(layers, name, 0)) && !f.has(sbom_of(layers, name, 1)) && !f.has(sbom_of(layers, name, 2))
}

// ---------- TOML text of a file ----------
// the unique string whose UTF-8 encoding is `b` (utf8 is injective)
pub open spec fn text_of(b: Seq<u8>) -> Seq<char> { choose|s: Seq<char>| utf8(s) == b }
pub open spec fn is_text(b: Seq<u8>) -> bool { exists|s: Seq<char>| utf8(s) == b }
pub proof fn lemma_text_of(s: Seq<char>)
    ensures text_of(utf8(s)) == s, is_text(utf8(s))
{
    broadcast use axiom_utf8_injective;
    assert(utf8(s) == utf8(s));
}
// what a typed reader sees in the file at p (after following a final symlink)
pub open spec fn file_toml<A>(f: FsState, p: PathV) -> Result<A, TomlDeError> {
    toml_de::<A>(text_of(f.content(f.follow(p)->0)))
}

// ---------- SBOM files of a layer ----------
pub open spec fn sbom_frame(f0: FsState, f1: FsState, layers: PathV, name: Seq<char>) -> bool {
    forall|q: PathV| #![trigger f1.has(q)] #![trigger f0.has(q)] #![trigger f1.same_at(f0, q)] #![trigger f1.nodes.contains_key(q)] #![trigger f0.nodes.contains_key(q)]
        q != sbom_of(layers, name, 0) && q != sbom_of(layers, name, 1) && q != sbom_of(layers, name, 2) ==> f1.same_at(f0, q)
}
