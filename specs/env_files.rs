// ---------- CNB env directory layout: file name <-> (behaviour, variable name) ----------
pub open spec fn ext_chars(b: int) -> Seq<char> {
    if b == 0 { "append"@ } else if b == 1 { "default"@ } else if b == 2 { "delim"@ } else if b == 3 { "override"@ } else { "prepend"@ }
}
pub open spec fn ext_bytes(b: int) -> Seq<u8> { utf8(ext_chars(b)) }
pub open spec fn dot_ext_chars(b: int) -> Seq<char> {
    if b == 0 { ".append"@ } else if b == 1 { ".default"@ } else if b == 2 { ".delim"@ } else if b == 3 { ".override"@ } else { ".prepend"@ }
}
pub open spec fn dot_ext(b: int) -> Seq<u8> { utf8(dot_ext_chars(b)) }
// file name the CNB spec prescribes for (behaviour b, variable n):  NAME.<append|default|delim|override|prepend>
pub open spec fn fname(k: (int, Seq<u8>)) -> Seq<u8> { k.1 + dot_ext(k.0) }
// variable names the property quantifies over: non-empty, no '/', no NUL
pub open spec fn var_name_ok(n: Seq<u8>) -> bool { n.len() > 0 && forall|i: int| 0 <= i < n.len() ==> n[i] != 47u8 && n[i] != 0u8 }

// which behaviour a directory entry name denotes, if any: suffix-less => override, unknown suffix => ignored
pub open spec fn classify(s: Seq<u8>) -> Option<(int, Seq<u8>)> {
    match ext_of(s) {
        None => Some((3, stem_of(s))),
        Some(e) => if e == ext_bytes(0) { Some((0, stem_of(s))) } else if e == ext_bytes(1) { Some((1, stem_of(s))) }
            else if e == ext_bytes(2) { Some((2, stem_of(s))) } else if e == ext_bytes(3) { Some((3, stem_of(s))) }
            else if e == ext_bytes(4) { Some((4, stem_of(s))) } else { None },
    }
}
pub proof fn lemma_ext_literals()
    ensures
        ext_bytes(0) =~= seq![97u8, 112, 112, 101, 110, 100], ext_bytes(1) =~= seq![100u8, 101, 102, 97, 117, 108, 116],
        ext_bytes(2) =~= seq![100u8, 101, 108, 105, 109], ext_bytes(3) =~= seq![111u8, 118, 101, 114, 114, 105, 100, 101],
        ext_bytes(4) =~= seq![112u8, 114, 101, 112, 101, 110, 100],
        forall|b: int| 0 <= b <= 4 ==> #[trigger] dot_ext(b) =~= seq![46u8] + ext_bytes(b),
{
    reveal_strlit("append"); reveal_strlit("default"); reveal_strlit("delim"); reveal_strlit("override"); reveal_strlit("prepend"); reveal_strlit(".");
    axiom_utf8_ascii("append"@); axiom_utf8_ascii("default"@); axiom_utf8_ascii("delim"@); axiom_utf8_ascii("override"@); axiom_utf8_ascii("prepend"@);
    reveal_strlit(".append"); reveal_strlit(".default"); reveal_strlit(".delim"); reveal_strlit(".override"); reveal_strlit(".prepend");
    axiom_utf8_ascii(".append"@); axiom_utf8_ascii(".default"@); axiom_utf8_ascii(".delim"@); axiom_utf8_ascii(".override"@); axiom_utf8_ascii(".prepend"@);
    assert(dot_ext(0) =~= seq![46u8] + ext_bytes(0));
    assert(dot_ext(1) =~= seq![46u8] + ext_bytes(1));
    assert(dot_ext(2) =~= seq![46u8] + ext_bytes(2));
    assert(dot_ext(3) =~= seq![46u8] + ext_bytes(3));
    assert(dot_ext(4) =~= seq![46u8] + ext_bytes(4));
}
// no '.' inside an extension, so the last dot of NAME.ext is the separator
pub proof fn lemma_last_dot_append(n: Seq<u8>, e: Seq<u8>)
    requires forall|i: int| 0 <= i < e.len() ==> e[i] != 46u8
    ensures last_dot(n + seq![46u8] + e) == n.len()
    decreases e.len()
{
    let s = n + seq![46u8] + e;
    if e.len() == 0 { assert(s.last() == 46u8); }
    else {
        assert(s.last() == e.last());
        assert(s.drop_last() =~= n + seq![46u8] + e.drop_last());
        lemma_last_dot_append(n, e.drop_last());
    }
}
// write/read agreement on names: NAME.<ext(b)> classifies back to (b, NAME) for every non-empty NAME
pub proof fn lemma_classify_fname(b: int, n: Seq<u8>)
    requires 0 <= b <= 4, n.len() > 0
    ensures classify(fname((b, n))) == Some((b, n))
{
    lemma_ext_literals();
    let e = ext_bytes(b);
    lemma_last_dot_append(n, e);
    let s = fname((b, n));
    assert(s =~= n + seq![46u8] + e);
    assert(s.subrange(0, n.len() as int) =~= n);
    assert(s.subrange(n.len() as int + 1, s.len() as int) =~= e);
}
pub proof fn lemma_fname_component(b: int, n: Seq<u8>)
    requires 0 <= b <= 4, var_name_ok(n)
    ensures is_component(fname((b, n)))
{
    lemma_ext_literals();
    let s = fname((b, n));
    assert(s =~= n + (seq![46u8] + ext_bytes(b)));
    assert(s.len() >= 6);
    assert forall|i: int| 0 <= i < s.len() implies s[i] != 47u8 && s[i] != 0u8 by {
        if i < n.len() { assert(s[i] == n[i]); } else { assert(s[i] == (seq![46u8] + ext_bytes(b))[i - n.len()]); }
    }
}
// distinct (behaviour, name) pairs get distinct file names
pub proof fn lemma_fname_injective(k1: (int, Seq<u8>), k2: (int, Seq<u8>))
    requires 0 <= k1.0 <= 4, 0 <= k2.0 <= 4, k1.1.len() > 0, k2.1.len() > 0, fname(k1) == fname(k2)
    ensures k1 == k2
{
    lemma_classify_fname(k1.0, k1.1);
    lemma_classify_fname(k2.0, k2.1);
}

// matching the UTF-8 text of an extension against the five words == comparing its bytes with the five encodings
pub proof fn lemma_ext_match(e: Seq<u8>)
    ensures
        forall|s: Seq<char>| #[trigger] utf8(s) == e ==> ((s == "append"@) == (e == ext_bytes(0))) && ((s == "default"@) == (e == ext_bytes(1)))
            && ((s == "delim"@) == (e == ext_bytes(2))) && ((s == "override"@) == (e == ext_bytes(3))) && ((s == "prepend"@) == (e == ext_bytes(4))),
        (forall|s: Seq<char>| utf8(s) != e) ==> e != ext_bytes(0) && e != ext_bytes(1) && e != ext_bytes(2) && e != ext_bytes(3) && e != ext_bytes(4),
{
    broadcast use axiom_utf8_injective;
}
