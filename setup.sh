#!/bin/bash
# offline setup: builds the extractor (and the bounded harness if present) from crates in the cargo registry
set -e
cd "$(dirname "$0")"
export CARGO_NET_OFFLINE=true
(cd xt && cargo build --release --offline 2>&1 | tail -3)
if [ -f bounded/Cargo.toml ]; then (cd bounded && cargo build --release --offline 2>&1 | tail -3); fi
mkdir -p build evidence replay
# warm the persistent build caches of the C15 harness (cargo-libcnb from /repo and the generated workspace); the check rebuilds incrementally
if [ -x bounded/target/release/bounded ]; then ./bounded/target/release/bounded c15_package >/dev/null 2>&1 || true; fi
# warm the compile cache of the literal-macro harness (C09)
if [ -x bounded/target/release/bounded ]; then ./bounded/target/release/bounded c09_macros >/dev/null 2>&1 || true; fi
echo setup-ok
