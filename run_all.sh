#!/bin/bash
# run every claimed check (tier $1, default quick) on the current /repo tree; prints one status line per property
tier=${1:-quick}
cd /verif
ids=$(python3 -c "import json; print(' '.join(sorted(json.load(open('props.json')).keys())))")
rc=0
for id in $ids; do
  out=$(python3 check.py $id --tier $tier 2>&1 | tail -3); r=$?
  echo "$id: $(echo "$out" | tail -1)"
done
