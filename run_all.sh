#!/bin/bash
# run every claimed check (tier $1, default quick) on the current /repo tree, 4 at a time; one status line per property
tier=${1:-quick}
cd /verif
python3 -c "import json; print('\n'.join(sorted(json.load(open('props.json')).keys())))" | \
  xargs -P 4 -I{} sh -c "python3 check.py {} --tier $tier 2>&1 | grep -E '^(OK|VIOLATION|UNDECIDED|KNOWN)' | head -3 | sed 's/^/{}: /'"
