#!/usr/bin/env python3
"""check.py — driver for contract-based deductive verification of /repo (heroku/libcnb.rs).

  check.py <PROPERTY> [--tier quick|thorough]     decide one property (exit 0 / 1 VIOLATION / 2 UNDECIDED)
  check.py --unit <unit> [--mode normal|canary|mutants] [--keep]   developer entry: one unit, verbose
  check.py --replay <replay.json>                 print a replay file and re-run its obligation
  check.py --list                                 units and the properties they serve
  check.py --record-skeletons                     (maintenance, clean tree only) record the statement structure of every extracted function

Every run re-extracts the real functions from the /repo working tree with xt (DESIGN.md §2.1),
splices the contracts written in units/*.vrs and runs Verus on the generated single file.
"""
import sys, os, re, json, subprocess, time, hashlib, concurrent.futures, shutil

VERIF = os.path.dirname(os.path.abspath(__file__))
REPO = os.environ.get("VERIF_REPO", "/repo")
BUILD = os.path.join(VERIF, "build", "p%d" % os.getpid()) if os.environ.get("VERIF_KEEP_BUILD") != "1" else os.path.join(VERIF, "build")
XT = os.path.join(VERIF, "xt", "target", "release", "xt")
UNITS = os.path.join(VERIF, "units")
VERUS = shutil.which("verus") or "/opt/veriftools/verus/verus"

VERIFICATION_FAILURE_PREFIXES = (
    "postcondition not satisfied", "precondition not satisfied", "assertion failed",
    "invariant not satisfied", "possible arithmetic", "possible division", "possible bit shift",
    "decreases not satisfied", "loop invariant", "unreachable", "could not prove termination",
    "cannot show invariant", "failed to satisfy", "recommendation not met", "loop ensures",
    "assert_by", "requires not satisfied", "ensures not satisfied", "possible truncation",
    "panic", "value may be out of range", "index out of bounds", "possible", "unable to prove",
)
RLIMIT_PREFIXES = ("Resource limit (rlimit) exceeded", "while loop: Resource limit", "function body check: Resource limit",
                   "loop: Resource limit")


class Undecided(Exception):
    pass


# ------------------------------------------------------------------ template parsing
def import_unit_vocabulary(unit_name, lemmas, already):
    """`//@ import <unit> [lemmas=a,b]`: the hand-written specification vocabulary of another unit (spec functions, types,
    shim impls) without its takes; its proof functions are dropped, except the named lemmas, which are emitted as
    external_body declarations (assumed here, PROVED in the home unit, which becomes a dependency of this unit)."""
    path = os.path.join(UNITS, unit_name + ".vrs")
    if not os.path.exists(path):
        raise Undecided(f"import of missing unit {unit_name}")
    raw = open(path).read().split("\n")
    # 1. drop directives, take blocks, the file frame
    lines, in_take = [], False
    for i, l in enumerate(raw, 1):
        if re.match(r"\s*//@\s*take\b", l):
            in_take = True
            continue
        if re.match(r"\s*//@\s*end\b", l):
            in_take = False
            continue
        if in_take or re.match(r"\s*//@", l):
            continue
        if l.startswith("use vstd") or l.strip() in ("verus! {", "} // verus!", "fn main() {}"):
            continue
        lines.append((f"units/{unit_name}.vrs:{i}", l))
    # 2. proof functions: drop, or keep the header as an assumed lemma
    out, i, used = [], 0, set()
    defined = set(re.findall(r"\bfn\s+(\w+)", already)) | set(re.findall(r"\b(?:type|struct|enum)\s+(\w+)", already))
    while i < len(lines):
        origin, l = lines[i]
        m = re.match(r"(\s*)(?:pub\s+)?(?:broadcast\s+)?proof\s+fn\s+(\w+)", l)
        top = re.match(r"(?:pub\s+)?(?:open\s+|closed\s+|uninterp\s+)?(?:spec|proof)\s+fn\s+(\w+)|pub\s+type\s+(\w+)", l)
        if m:
            # header: up to the line on which the body opens (first line whose text starts with `{`, or a `{` ending the fn line)
            j = i
            while j < len(lines) and not (lines[j][1].strip().startswith("{") or (j == i and re.search(r"\)\s*\{", lines[j][1]) and "ensures" not in lines[j][1] and "requires" not in lines[j][1])):
                j += 1
            if j >= len(lines):
                raise Undecided(f"import {unit_name}: cannot find the body of proof fn {m.group(2)}")
            header = [x[1] for x in lines[i:j]]
            first = lines[j][1]
            if not first.strip().startswith("{"):
                header.append(first[:first.index("{", first.index(")"))])
                rest_first = first[first.index("{", first.index(")")):]
            else:
                rest_first = first
            depth, k, txt = 0, j, rest_first
            while True:
                depth += txt.count("{") - txt.count("}")
                if depth <= 0:
                    break
                k += 1
                if k >= len(lines):
                    raise Undecided(f"import {unit_name}: unbalanced braces in proof fn {m.group(2)}")
                txt = lines[k][1]
            if m.group(2) in lemmas and not (m.group(1) == "" and m.group(2) in defined):
                used.add(m.group(2))
                out.append((origin, m.group(1) + "#[verifier::external_body]"))
                for h in header:
                    out.append((origin, h))
                out.append((origin, m.group(1) + "{ } // assumed here, proved in unit " + unit_name))
            i = k + 1
            continue
        if top and (top.group(1) or top.group(2)) in defined:
            # already defined by this unit's own includes: skip the whole item (to the end of its balanced braces / `;`)
            depth, k = 0, i
            while True:
                t = lines[k][1]
                depth += t.count("{") - t.count("}")
                if depth <= 0 and (t.rstrip().endswith("}") or t.rstrip().endswith(";")):
                    break
                k += 1
                if k >= len(lines):
                    break
            i = k + 1
            continue
        out.append((origin, l))
        i += 1
    missing = set(lemmas) - used
    if missing:
        raise Undecided(f"import {unit_name}: lemmas not found: {sorted(missing)}")
    return out


def read_template(path, seen=None):
    """returns list of (origin, text) lines with //@ include and //@ import expanded"""
    seen = seen or []
    out = []
    with open(path) as f:
        for i, line in enumerate(f.read().split("\n"), 1):
            mi = re.match(r"\s*//@\s*import\s+(\w+)(?:\s+lemmas=(\S+))?", line)
            if mi:
                lem = [x for x in (mi.group(2) or "").split(",") if x]
                out.extend(import_unit_vocabulary(mi.group(1), lem, "\n".join(x[1] for x in out)))
                continue
            m = re.match(r"\s*//@\s*include\s+(\S+)", line)
            if m:
                inc = os.path.join(VERIF, m.group(1))
                if inc in seen:
                    raise Undecided(f"recursive include {inc}")
                out.extend(read_template(inc, seen + [inc]))
            else:
                out.append((f"{os.path.relpath(path, VERIF)}:{i}", line))
    return out


class Take:
    def __init__(self, key, file, selector, opts):
        self.key, self.file, self.selector, self.opts = key, file, selector, opts
        self.sections = {}   # name -> text
        self.meta = {}
        self.text = None
        self.unsupported = []
        self.contract_file = None
        m = re.search(r"(?:^|,)\s*stub=([\w]+)", opts)
        self.stub = m.group(1) if m else None
        self.opts = re.sub(r"(?:^|,)\s*stub=[\w]+", "", opts).strip(",")


def parse_unit(path):
    lines = read_template(path)
    unit = {"name": os.path.splitext(os.path.basename(path))[0], "serves": [], "takes": [], "mutants": [],
            "chunks": [], "trusted": [], "path": path}
    cur_take, cur_sec = None, None
    for origin, line in lines:
        m = re.match(r"\s*//@\s*(\w+)\s*(.*)$", line)
        if m:
            d, rest = m.group(1), m.group(2).strip()
            if d == "unit":
                unit["name"] = rest
            elif d == "serves":
                unit["serves"] = rest.split()
            elif d == "trusted":
                unit["trusted"].append(rest)
            elif d == "take":
                parts = [p.strip() for p in rest.split("|", 3)]
                while len(parts) < 4:
                    parts.append("")
                cur_take = Take(*parts[:4])
                cur_sec = None
                unit["takes"].append(cur_take)
                unit["chunks"].append(("take", cur_take, origin))
            elif d == "end":
                cur_take, cur_sec = None, None
            elif d == "from" and cur_take is not None:
                # contract sections kept in a separate file (shared between the verifying unit and stubs)
                cpath = os.path.join(VERIF, rest)
                csec = None
                for cl in open(cpath).read().split("\n"):
                    cm = re.match(r"\s*//@\s*(\w+)\s*(.*)$", cl)
                    if cm:
                        csec = (cm.group(1) + " " + cm.group(2)).strip()
                        cur_take.sections.setdefault(csec, "")
                    elif csec is not None:
                        cur_take.sections[csec] += cl + "\n"
                cur_take.contract_file = rest
                cur_sec = None
            elif d == "regex_spec":
                tag, _, key = rest.partition(" from ")
                unit["chunks"].append(("regex", (tag.strip(), key.strip()), origin))
            elif d == "mutant":
                parts = [p.strip() for p in re.split(r"(?<!\\)\s\|(?=\s|$)", " " + rest)]
                parts = [("" if x == "|" else x).replace("{{PIPE}}", "|") for x in parts]
                while len(parts) < 5:
                    parts.append("")
                unit["mutants"].append(parts)
            elif cur_take is not None:
                cur_sec = (d + " " + rest).strip()
                cur_take.sections.setdefault(cur_sec, "")
            else:
                raise Undecided(f"{origin}: directive {d} outside a take block")
            continue
        if cur_take is not None:
            if cur_sec is None:
                if line.strip():
                    raise Undecided(f"{origin}: text in take block before a section header")
                continue
            cur_take.sections[cur_sec] += line + "\n"
        else:
            unit["chunks"].append(("text", line, origin))
    return unit


# ------------------------------------------------------------------ extraction
def run_xt(unit, workdir, tolerant=False):
    """tolerant: extraction errors are recorded per take (t.xt_error) instead of raised (dependency-only units, see reduce_unit)"""
    import threading
    takes_path = os.path.join(workdir, f"{unit['name']}.{os.getpid()}.{threading.get_ident()}.takes")
    with open(takes_path, "w") as f:
        for t in unit["takes"]:
            f.write(f"{t.key}|{t.file}|{t.selector}|{t.opts}\n")
    if not os.path.exists(XT):
        raise Undecided("xt extractor not built (run MANIFEST setup_cmd)")
    p = subprocess.run([XT, REPO, takes_path], capture_output=True, text=True)
    try:
        os.unlink(takes_path)
    except OSError:
        pass
    if p.returncode != 0:
        raise Undecided(f"xt failed: {p.stderr.strip()[:400]}")
    bykey = {t.key: t for t in unit["takes"]}
    cur, intext, buf = None, False, []
    for line in p.stdout.split("\n"):
        if line.startswith("@@ITEM "):
            cur = bykey[line[7:].strip()]
        elif line.startswith("@@META "):
            for kv in line[7:].split():
                if "=" in kv:
                    k, v = kv.split("=", 1)
                    cur.meta[k] = v
        elif line.startswith("@@MACARGS "):
            k, _, rest = line[10:].partition(" ")
            bykey[k].meta["macargs"] = dict(x.split(":", 1) for x in rest.split(" ;; ") if ":" in x)
        elif line.startswith("@@UNSUPPORTED "):
            cur.unsupported.append(line[14:])
        elif line.startswith("@@TEXT"):
            intext, buf = True, []
        elif line.startswith("@@END"):
            cur.text = "\n".join(buf)
            intext = False
        elif line.startswith("@@ERROR "):
            if not tolerant:
                raise Undecided("extractor: lost anchor: " + line[8:])
            k = line[8:].split(" ", 1)[0]
            if k in bykey:
                bykey[k].xt_error = line[8:]
            else:
                raise Undecided("extractor: lost anchor: " + line[8:])
        elif intext:
            buf.append(line)
    for t in unit["takes"]:
        if tolerant and (t.text is None or t.unsupported or getattr(t, "xt_error", None)):
            t.xt_error = getattr(t, "xt_error", None) or (f"{t.key}: " + "; ".join(t.unsupported) if t.unsupported else f"extractor produced nothing for {t.key}")
            continue
        if t.text is None:
            raise Undecided(f"extractor produced nothing for {t.key}")
        if t.unsupported:
            raise Undecided(f"{t.key}: " + "; ".join(t.unsupported))
        # fidelity record: hash of the original source lines
        try:
            src = open(os.path.join(REPO, t.file)).read().split("\n")
            a, b = int(t.meta.get("line_start", 0)), int(t.meta.get("line_end", 0))
            t.meta["sha256"] = hashlib.sha256("\n".join(src[a - 1:b]).encode()).hexdigest()[:16]
        except Exception:
            pass


def find_matching(s, i, open_c="(", close_c=")"):
    """s[i] == open_c; returns index of the matching close, skipping string/char literals"""
    depth, j, n = 0, i, len(s)
    while j < n:
        c = s[j]
        if c == '"':
            j += 1
            while j < n and s[j] != '"':
                if s[j] == "\\":
                    j += 1
                j += 1
        elif c == "'" and j + 2 < n and (s[j + 2] == "'" or (s[j + 1] == "\\" and "'" in s[j + 2:j + 6])):
            j = s.index("'", j + 2 if s[j + 1] != "\\" else j + 3)
        elif c == open_c:
            depth += 1
        elif c == close_c:
            depth -= 1
            if depth == 0:
                return j
        j += 1
    raise Undecided("unbalanced delimiters in generated text")


def splice(take, mode, mutant=None):
    """substitute contract sections for the placeholders xt left in the item text"""
    text = take.text
    sec = dict(take.sections)
    used = set()

    def get(name):
        if name in sec:
            used.add(name)
            return sec[name].rstrip("\n")
        return ""

    if mutant is not None and mutant[1] == take.key:
        new, n = re.subn(mutant[2], mutant[3], text, count=1, flags=re.S)
        if n != 1:
            raise Undecided(f"mutant {mutant[0]}: pattern does not match extracted text of {take.key}")
        text = new
    is_fn = "__VERIF_CONTRACT__" in text
    if is_fn and take.stub:
        # assumed here, verified in unit <take.stub> against the same contract file
        head = text[:text.index("__VERIF_CONTRACT__")]
        attr = get("attr")
        text = "#[verifier::external_body] // stub: verified in unit %s\n" % take.stub + head + get("contract") + "\n{ unimplemented!() }"
        return text
    if is_fn:
        attr = get("attr")
        contract = get("contract")
        text = text.replace("__VERIF_CONTRACT__", contract if contract.strip() else "", 1)
        if attr:
            text = attr + "\n" + text
        # canaries: reachability of the function end (or entry) under the contracts
        has_exit = "__verif_exit !();" in text
        if mode == "canary" and "exec const" in text.split("\n")[0]:
            pass
        elif mode == "canary":
            if re.search(r"ensures\s+false", contract):
                # a function that never returns: every process-exit site must be reachable under the contracts
                k = [0]
                def site(m):
                    k[0] += 1
                    return f"exit({{ assert(false); // [canary-exitsite:{take.key}.{k[0]}]\n &mut *world }},"
                text = re.sub(r"\bexit\(world\s*,", site, text)
                text = text.replace("__verif_exit !();", "")
            elif has_exit:
                text = text.replace("__verif_exit !();", f"assert(false); // [canary-exit:{take.key}]", 1)
                used.add("exit")
            else:
                # entry canary: right after the opening brace of the body
                idx = text.index("{", text.index(contract) + len(contract) if contract.strip() else 0)
                text = text[:idx + 1] + f"\nassert(false); // [canary-entry:{take.key}]" + text[idx + 1:]
        pre_body = get("pre_body")
        if pre_body:
            marker = contract if contract.strip() else ""
            idx = text.index("{", (text.index(marker) + len(marker)) if marker else 0)
            text = text[:idx + 1] + "\n" + pre_body + text[idx + 1:]
        nloops = int(take.meta.get("loops", 0))
        for n in range(nloops):
            head = get(f"loop {n}")
            pat = re.compile(r"loop \{\s*__verif_loop_head_%d !\(\);" % n)
            if not pat.search(text):
                if mutant is not None and mutant[1] == take.key:
                    # the mutation removed this loop: its sections have no anchor any more
                    for kind in ("loop", "before_loop", "after_loop", "body_start", "body_end"):
                        used.add(f"{kind} {n}")
                    continue
                raise Undecided(f"{take.key}: loop head {n} placeholder lost")
            text = pat.sub(lambda m: "loop\n" + head + "\n{", text, count=1)
            for kind in ("before_loop", "after_loop", "body_start", "body_end"):
                ph = f"__verif_{kind}_{n} !();"
                text = text.replace(ph, get(f"{kind} {n}"))
        if "__verif_exit !();" in text:
            text = text.replace("__verif_exit !();", get("exit"), 1)
        text = re.sub(r"__verif_stmt_(\d+) !\(\);", lambda m: get("after_stmt " + m.group(1)), text)
        text = re.sub(r"__verif_after_let_(\w+?)_(\d+) !\(\);", lambda m: get(f"after_let {m.group(1)} {m.group(2)}"), text)
        text = re.sub(r"__verif_exit_reason_(\d+) !\(\)", lambda m: (get("exit_reason " + m.group(1)).strip() or "Ghost(ExitReason::Unstated)"), text)
        text = re.sub(r"__verif_qexit_(\d+) !\(\);", lambda m: get("qexit " + m.group(1)), text)
        text = re.sub(r"__verif_arm_(\d+) !\(\);", lambda m: get("arm " + m.group(1)), text)
        # after_call anchors; `__tail` in the section text names the value of a block tail that was bound to a temporary
        def after_call(m):
            tail, name, k = m.group(2), m.group(3), m.group(4)
            body = get(f"after_call {name} {k}")
            return body.replace("__tail", tail) if tail else body
        text = re.sub(r"(__verif_tailname_(__t\d+) !\(\);\s*)?__verif_after_call_(\w+?)_(\d+) !\(\);", after_call, text)
        text = re.sub(r"__verif_tailname___t\d+ !\(\);", "", text)
        # nested fns
        for name in [x for x in take.meta.get("nested", "").split(",") if x]:
            ph = f"__verif_nested_{name} !();"
            c = get(f"nested {name}")
            pat = re.compile(r"fn %s\s*(\([^{]*?\))\s*->\s*([^{]+?)\s*\{\s*%s" % (re.escape(name), re.escape(ph)))
            m = pat.search(text)
            if m:
                rn = "r"
                text = text[:m.start()] + f"fn {name}{m.group(1)} -> ({rn}: {m.group(2)})\n{c}\n{{" + text[m.end():]
            else:
                text = text.replace(ph, "")
        # closures
        for n in [x for x in take.meta.get("closures", "").split(";") if x]:
            ph = f"__verif_closure_{n} !("
            i = text.find(ph)
            if i < 0:
                continue
            j = find_matching(text, i + len(ph) - 1)
            inner = text[i + len(ph):j]
            hdr = get("closure " + n.rsplit("_", 1)[0] + " " + n.rsplit("_", 1)[1])
            if hdr:
                # inner = |params| body  -> hdr { body }
                k = inner.index("|", inner.index("|") + 1)
                body = inner[k + 1:].strip()
                if not body.startswith("{"):
                    body = "{ " + body + " }"
                # a header that ends in a `// [label]` comment gets the body on the next line
                inner = hdr + ("\n" if "//" in hdr.rstrip().split("\n")[-1] else " ") + body
            text = text[:i] + inner + text[j + 1:]
        if "__verif_" in text:
            raise Undecided(f"{take.key}: unreplaced placeholder: " + re.search(r"__verif_\w+", text).group(0))
        unused = set(sec) - used - {"attr", "contract", "pre_body"}
        if unused and not (mutant is not None and mutant[1] == take.key):
            raise Undecided(f"{take.key}: contract sections without an anchor in the extracted code: {sorted(unused)}")
    else:
        deriv = get("after")
        if deriv:
            text = text + "\n" + deriv
    return text



def gen_regex_spec(tag, lit):
    """Verus spec function for the regex literal `lit` (Rust raw/normal string literal token text).
    Supported shape only:  ^ [(?!(w1|w2|..)$)] ATOM (+|*) $   with ATOM = . | [class];  anything else => Undecided."""
    m = re.match(r'^r?#*"(.*)"#*$', lit.strip())
    if not m:
        raise Undecided(f"regex_spec {tag}: not a string literal: {lit}")
    rx = m.group(1)
    body = rx
    if not (body.startswith("^") and body.endswith("$")):
        raise Undecided(f"regex_spec {tag}: unsupported regex (anchors): {rx}")
    body = body[1:-1]
    reserved = []
    la = re.match(r"^\(\?!\(([^()]*)\)\$\)", body)
    if la:
        reserved = la.group(1).split("|")
        if not all(re.fullmatch(r"[A-Za-z0-9_]+", w) for w in reserved):
            raise Undecided(f"regex_spec {tag}: unsupported look-ahead alternative in {rx}")
        body = body[la.end():]
    qm = re.match(r"^(\.|\[(?:\[:[a-z]+:\]|[^\]\[])+\])([+*])$", body)
    if not qm:
        raise Undecided(f"regex_spec {tag}: unsupported regex body: {body}")
    atom, quant = qm.group(1), qm.group(2)
    conds = []
    if atom == ".":
        conds.append("c != '\\n'")   # `.` matches any character except a line feed (regex crate / fancy_regex default)
    else:
        cls = atom[1:-1]
        i = 0
        while i < len(cls):
            if cls.startswith("[:", i):
                j = cls.index(":]", i)
                name = cls[i + 2:j]
                if name == "alnum":
                    conds.append("('0' <= c && c <= '9') || ('A' <= c && c <= 'Z') || ('a' <= c && c <= 'z')")
                elif name == "alpha":
                    conds.append("('A' <= c && c <= 'Z') || ('a' <= c && c <= 'z')")
                elif name == "digit":
                    conds.append("('0' <= c && c <= '9')")
                else:
                    raise Undecided(f"regex_spec {tag}: unsupported POSIX class {name}")
                i = j + 2
            elif i + 2 < len(cls) and cls[i + 1] == "-" and cls[i + 2] != "]":
                a, b = cls[i], cls[i + 2]
                if not (a.isalnum() and b.isalnum()):
                    raise Undecided(f"regex_spec {tag}: unsupported range {a}-{b}")
                conds.append(f"('{a}' <= c && c <= '{b}')")
                i += 3
            else:
                ch = cls[i]
                if ch == "\\" or ch == "^":
                    raise Undecided(f"regex_spec {tag}: unsupported class item {ch!r}")
                conds.append(f"c == '{ch}'")
                i += 1
    cls_expr = " || ".join(conds)
    parts = []
    if quant == "+":
        parts.append("s.len() > 0")
    parts.append(f"(forall|i: int| 0 <= i < s.len() ==> rx_{tag}_class(#[trigger] s[i]))")
    for w in reserved:
        parts.append(f's != "{w}"@')
    return "\n".join([
        f"// generated from the literal {lit} found in /repo (regex subset: anchors, one negative look-ahead over words, one atom with + or *)",
        f"pub open spec fn rx_{tag}_class(c: char) -> bool {{ {cls_expr} }}",
        f"pub open spec fn rx_{tag}(s: Seq<char>) -> bool {{ {' && '.join(parts)} }}",
        f"pub broadcast axiom fn axiom_rx_{tag}(s: Seq<char>) ensures #[trigger] regex_sem({lit}@, s) == rx_{tag}(s);",
    ])


def assemble(unit, mode="normal", mutant=None):
    out, linemap = [], []   # linemap[i] = (origin, take_key or None)
    for kind, payload, origin in unit["chunks"]:
        if kind == "text":
            out.append(payload)
            linemap.append((origin, None))
        elif kind == "regex":
            tag, key = payload
            t = next((x for x in unit["takes"] if x.key == key), None)
            lit = (t.meta.get("macargs", {}) if t else {}).get("regex")
            if not lit:
                raise Undecided(f"regex_spec {tag}: take {key} has no macro argument `regex`")
            for l in gen_regex_spec(tag, lit).split("\n"):
                out.append(l)
                linemap.append((origin + " (generated from the regex literal in /repo)", None))
        else:
            t = payload
            hdr = f"// ==== extracted from {t.file} :: {t.selector} lines {t.meta.get('line_start')}-{t.meta.get('line_end')} sha256={t.meta.get('sha256')} rewrites={t.meta.get('rewrites')}"
            out.append(hdr)
            linemap.append((origin, t.key))
            for l in splice(t, mode, mutant).split("\n"):
                out.append(l)
                linemap.append((origin, t.key))
    if mode == "canary":
        # lemma canaries: a hand-written proof fn with a `requires` must have a satisfiable precondition
        i = 0
        while i < len(out):
            m = re.match(r"\s*(?:pub\s+)?(?:broadcast\s+)?proof fn (\w+)", out[i])
            if m and linemap[i][1] is None:
                j, has_req = i, False
                while j < len(out) and out[j].strip() != "{" and not out[j].rstrip().endswith("{}") and not out[j].rstrip().endswith(";"):
                    if "requires" in out[j]:
                        has_req = True
                    j += 1
                if j < len(out) and out[j].strip() == "{" and has_req:
                    out.insert(j + 1, f"    assert(false); // [canary-lemma:{m.group(1)}]")
                    linemap.insert(j + 1, ("canary", None))
                i = j
            i += 1
        # axiom consistency canary
        idx = max(i for i, l in enumerate(out) if l.strip().startswith("} // verus!") or l.strip() == "} // verus!")
        out.insert(idx, "proof fn __verif_axioms_consistent() ensures false {} // [canary-axioms]")
        linemap.insert(idx, ("canary", None))
    return out, linemap


# ------------------------------------------------------------------ running verus
def run_verus(path, rlimit=None, seed=None, multiple_errors=None, timeout=600, extra=None):
    cmd = [VERUS, path, "--output-json", "--time", "--error-format=json", "--no-report-long-running"] + (extra or [])
    if rlimit:
        cmd += ["--rlimit", str(rlimit)]
    if seed is not None:
        cmd += ["--smt-option", f"smt.random_seed={seed}"]
    if multiple_errors:
        cmd += ["--multiple-errors", str(multiple_errors)]
    t0 = time.time()
    try:
        p = subprocess.run(cmd, capture_output=True, text=True, timeout=timeout, cwd=os.path.dirname(path))
    except subprocess.TimeoutExpired:
        raise Undecided(f"verus timeout after {timeout}s on {os.path.basename(path)}")
    wall = time.time() - t0
    try:
        js = json.loads(p.stdout[p.stdout.index("{"):])
    except Exception:
        js = None
    diags = []
    for line in p.stderr.split("\n"):
        line = line.strip()
        if line.startswith("{"):
            try:
                diags.append(json.loads(line))
            except Exception:
                pass
    return {"cmd": " ".join(cmd), "rc": p.returncode, "json": js, "diags": diags, "stderr": p.stderr, "wall": wall}


LABEL_RE = re.compile(r"\[([A-Za-z0-9_.:@\-]+)\]\s*$")
FN_RE = re.compile(r"^\s*(?:pub(?:\([a-z]+\))?\s+)?(?:(?:proof|spec|exec|open|closed|broadcast|uninterp|axiom)\s+)*fn\s+(\w+)")


def locate(gen_lines, linemap, line_no, line_end=None):
    """label + function + take for a 1-based line of the generated file"""
    label = None
    i = line_no - 1
    for k in range(i, min((line_end or line_no), len(gen_lines))):
        m = LABEL_RE.search(gen_lines[k])
        if m:
            label = m.group(1)
            break
    fn = None
    j = i
    while j >= 0:
        m = FN_RE.match(gen_lines[j])
        if m:
            fn = m.group(1)
            break
        j -= 1
    take = linemap[i][1] if 0 <= i < len(linemap) else None
    origin = linemap[i][0] if 0 <= i < len(linemap) else None
    return label, fn, take, origin


def classify(res, gen_lines, linemap):
    """-> (failures, tool_errors, rlimits). failure = dict(obligation, message, ...)"""
    failures, tool, rl = [], [], []
    for d in res["diags"]:
        if d.get("level") != "error":
            continue
        msg = d.get("message", "")
        if msg.startswith("aborting due to") or msg.startswith("could not compile"):
            continue
        if any(msg.startswith(p) or p in msg for p in RLIMIT_PREFIXES):
            rl.append(msg)
            continue
        is_vf = d.get("code") is None and any(msg.startswith(p) for p in VERIFICATION_FAILURE_PREFIXES)
        if not is_vf:
            tool.append((msg, (d.get("rendered") or "")[:1500]))
            continue
        spans = d.get("spans", [])
        prim = [s for s in spans if s.get("is_primary")] or spans
        sec = [s for s in spans if not s.get("is_primary")]
        pl, pfn, ptake, porigin = locate(gen_lines, linemap, prim[0]["line_start"], prim[0].get("line_end")) if prim else (None, None, None, None)
        # the function whose proof failed: for pre/postconditions the non-primary span is in the body under check
        site_fn, site_take, site_label = pfn, ptake, None
        if msg.startswith("precondition not satisfied"):
            # primary = call site, secondary = failed precondition clause
            for s in sec:
                if not os.path.abspath(str(s.get("file_name", ""))).startswith(os.path.abspath(os.path.join(VERIF, "build"))):
                    # the failed precondition belongs to a library function (vstd): name it after the callee in the call-site text
                    callee = re.findall(r"\.(\w+)\s*\(", (prim[0]["text"][0]["text"] if prim and prim[0].get("text") else "")[(prim[0]["text"][0].get("highlight_start", 1) - 1):(prim[0]["text"][0].get("highlight_end", 1) - 1)] if prim and prim[0].get("text") else "")
                    site_label = "pre:" + (callee[-1] if callee else "library_function")
                    continue
                l2, f2, t2, _ = locate(gen_lines, linemap, s["line_start"], s.get("line_end"))
                if l2:
                    site_label = "pre:" + (f2 or "?") + "/" + l2
                elif f2:
                    site_label = "pre:" + f2
            label = site_label or ("pre@" + str(prim[0]["line_start"]))
        elif msg.startswith("postcondition not satisfied"):
            label = pl or "post"
            # function = function containing the failed clause (same fn)
        else:
            label = pl or msg.split(":")[0].replace(" ", "_")
        kind = msg.split(":")[0]
        failures.append({
            "function": site_fn, "take": site_take, "label": label, "kind": kind, "message": msg,
            "generated_line": prim[0]["line_start"] if prim else None,
            "clause_text": (prim[0]["text"][0]["text"].strip() if prim and prim[0].get("text") else None),
            "origin": porigin, "rendered": (d.get("rendered") or "")[:3000],
        })
    return failures, tool, rl


def fn_breakdown(js):
    out = []
    try:
        for m in js["times-ms"]["smt"]["smt-run-module-times"]:
            for f in m.get("function-breakdown", []):
                out.append(f)
    except Exception:
        pass
    return out


def scan_assumptions(gen_lines, linemap):
    """every external_body / assume / admit / assume_specification / axiom in the generated file, with origin"""
    items = []
    pat = re.compile(r"external_body|assume_specification|\bassume\s*\(|\badmit\s*\(|\baxiom\s+fn|external_type_specification|external_trait_specification|uninterp\s+spec")
    for i, l in enumerate(gen_lines):
        if l.strip().startswith("//"):
            continue
        if pat.search(l):
            origin, take = linemap[i]
            # name: next fn/struct name on this or following lines
            name = None
            for k in range(i, min(i + 6, len(gen_lines))):
                m = re.search(r"\b(?:fn|struct|trait|enum)\s+(\w+)", gen_lines[k])
                if m:
                    name = m.group(1)
                    break
                m = re.search(r"assume_specification.*?\[\s*([^\]]+?)\s*\]", gen_lines[k])
                if m:
                    name = m.group(1)
                    break
            items.append({"origin": origin, "in_take": take, "what": pat.search(l).group(0).strip(), "name": name})
    return items


def reduce_unit(unit, needed):
    """A unit that a property only DEPENDS on (its functions are stubbed elsewhere) is verified for exactly the functions the dependents
    stub plus what those call inside the unit (transitively). Every other function take is emitted as an assumed declaration (or dropped
    when it cannot even be extracted), so that an unrelated change in the same unit does not make the dependents undecided."""
    fn_takes = [t for t in unit["takes"] if " fn " in (" " + t.selector)]
    keep = {t.key for t in fn_takes if t.key in needed}
    name_of = {}
    for t in fn_takes:
        m = re.search(r"rename=(\w+)", t.opts)
        name_of[t.key] = m.group(1) if m else t.selector.split()[-1]
    changed = True
    while changed:
        changed = False
        for t in fn_takes:
            if t.key in keep and getattr(t, "xt_error", None) is None and t.text:
                body = t.text + "".join(t.sections.values())
                for u in fn_takes:
                    if u.key not in keep and re.search(r"\b" + re.escape(name_of[u.key]) + r"\s*(?:::<[^>]*>)?\s*\(", body):
                        keep.add(u.key)
                        changed = True
    for t in fn_takes:
        if t.key in keep:
            if getattr(t, "xt_error", None):
                raise Undecided("extractor: lost anchor: " + t.xt_error)
        else:
            t.not_needed = True
    for t in unit["takes"]:
        if t not in fn_takes and getattr(t, "xt_error", None):
            raise Undecided("extractor: lost anchor: " + t.xt_error)
    # drop takes that are neither needed nor extractable; mark the others as assumed declarations
    dropped = {t.key for t in fn_takes if getattr(t, "not_needed", False) and getattr(t, "xt_error", None)}
    unit["takes"] = [t for t in unit["takes"] if t.key not in dropped]
    unit["chunks"] = [c for c in unit["chunks"] if not (c[0] == "take" and c[1].key in dropped)]
    for t in unit["takes"]:
        if getattr(t, "not_needed", False) and not t.stub:
            t.stub = "(not needed by this property: assumed here, verified by the checks of the properties this unit serves)"
    unit["mutants"] = [m for m in unit["mutants"] if m[1] in keep]
    return keep


def verify_unit(unit_path, mode="normal", mutant=None, tier="quick", keep=True, seed=None, rlimit=None, needed=None):
    """returns dict with failures etc.; raises Undecided. needed: set of take keys (dependency-only unit, see reduce_unit)"""
    os.makedirs(BUILD, exist_ok=True)
    unit = parse_unit(unit_path)
    run_xt(unit, BUILD, tolerant=needed is not None)
    if needed is not None:
        unit["reduced_to"] = sorted(reduce_unit(unit, needed))
    gen_lines, linemap = assemble(unit, mode, mutant)
    suffix = "" if mode == "normal" and mutant is None else ("__" + (mode if mutant is None else "mut_" + mutant[0]))
    gpath = os.path.join(BUILD, unit["name"] + suffix + ".rs")
    with open(gpath, "w") as f:
        f.write("\n".join(gen_lines) + "\n")
    res = run_verus(gpath, rlimit=(rlimit or (3 if mode == "canary" else None)), seed=seed, multiple_errors=(12 if mode == "canary" else 6))
    failures, tool, rl = classify(res, gen_lines, linemap)
    isolated = []
    if rl and mode == "normal" and mutant is None and not failures and not tool:
        # retry once with 4x rlimit and another seed (DESIGN §2.4)
        res2 = run_verus(gpath, rlimit=40, seed=7)
        f2, t2, r2 = classify(res2, gen_lines, linemap)
        if not r2:
            res, failures, tool, rl = res2, f2, t2, r2
        else:
            # last resort: each function that ran out of resources is re-verified ALONE in a fresh solver (its obligation does not
            # depend on the other functions' bodies, only on their contracts, so an isolated success is the same proof)
            slow = sorted({b["function"].split("::", 1)[1] for b in fn_breakdown(res2["json"]) + fn_breakdown(res["json"]) if not b.get("success", True) and "::" in b.get("function", "")})
            ok_all, extra = bool(slow), 0
            for fnm in slow:
                r3 = run_verus(gpath, rlimit=40, seed=3, extra=["--verify-function", fnm, "--verify-root"])
                f3, t3, rl3 = classify(r3, gen_lines, linemap)
                v3 = ((r3["json"] or {}).get("verification-results", {}) or {}).get("verified", 0)
                if f3 or t3 or rl3 or v3 == 0:
                    ok_all = False
                    if f3 and not t3:
                        failures = f3   # a real failed clause, reported as such
                    break
                extra += v3
            if ok_all:
                base = res2 if not f2 and not t2 else res
                vr0 = (base["json"] or {}).get("verification-results", {})
                vr0["verified"] = vr0.get("verified", 0) + extra
                vr0["errors"] = 0
                res, failures, tool, rl = base, [], [], []
                isolated = slow
    assumptions = scan_assumptions(gen_lines, linemap)
    stub_keys = {t.key for t in unit["takes"] if t.stub}
    leaked = [a for a in assumptions if a["in_take"] is not None and a["in_take"] not in stub_keys]
    for a in assumptions:
        if a["in_take"] in stub_keys:
            a["what"] = "stub (contract verified in unit %s)" % next(t.stub for t in unit["takes"] if t.key == a["in_take"])
    vr = (res["json"] or {}).get("verification-results", {})
    return {"unit": unit, "gen_path": gpath, "gen_lines": gen_lines, "linemap": linemap, "res": res,
            "failures": failures, "tool_errors": tool, "rlimit": rl, "assumptions": assumptions,
            "leaked_assumptions": leaked, "verified": vr.get("verified", 0), "errors": vr.get("errors", 0),
            "breakdown": fn_breakdown(res["json"]), "mode": mode, "isolated_retry": isolated}


def check_canaries(unit_path, needed=None):
    """canary run: every canary assertion must FAIL. returns (n_canaries, list of canaries that verified)"""
    r = verify_unit(unit_path, mode="canary", needed=needed)
    if r["tool_errors"]:
        raise Undecided("canary build of %s does not compile: %s" % (r["unit"]["name"], r["tool_errors"][0][0]))
    expected = set()
    for l in r["gen_lines"]:
        m = re.search(r"\[(canary-[a-z]+(?::[\w.]+)?)\]\s*$", l)
        if m:
            expected.add(m.group(1))
    failed = set()
    for f in r["failures"]:
        if f["label"] and f["label"].startswith("canary-"):
            failed.add(f["label"])
    # a canary whose function ran into the resource limit was NOT proved either: count it as not verified
    rl_fns = set()
    for d in r["res"]["diags"]:
        if d.get("level") == "error" and any(p in d.get("message", "") for p in RLIMIT_PREFIXES):
            for sp in d.get("spans", []):
                _, fn, _, _ = locate(r["gen_lines"], r["linemap"], sp["line_start"] + 1)
                if fn:
                    rl_fns.add(fn)
    for i, l in enumerate(r["gen_lines"]):
        m = re.search(r"\[(canary-[a-z]+(?::[\w.]+)?)\]\s*$", l)
        if m and m.group(1) not in failed:
            _, fn, _, _ = locate(r["gen_lines"], r["linemap"], i + 1)
            if fn in rl_fns:
                failed.add(m.group(1))
    return sorted(expected), sorted(expected - failed), r


# ------------------------------------------------------------------ property level
SKEL_RE = re.compile(r"__verif_\w+|\b(?:let|match|if|else|loop|while|for|return|break|continue)\b|=>|[{};]")


def skeleton(text):
    """statement structure of an extracted item: keywords, braces, statement ends, match arms, anchors - no names, no expressions"""
    import hashlib
    return hashlib.sha1(" ".join(m.group(0) for m in SKEL_RE.finditer(text or "")).encode()).hexdigest()[:16]


def load_skeletons():
    p = os.path.join(VERIF, "skeletons.json")
    return json.load(open(p)) if os.path.exists(p) else {}


def record_skeletons():
    out = {}
    os.makedirs(BUILD, exist_ok=True)
    for fn in sorted(os.listdir(UNITS)):
        if fn.endswith(".vrs"):
            unit = parse_unit(os.path.join(UNITS, fn))
            run_xt(unit, BUILD)
            out[unit["name"]] = {t.key: skeleton(t.text) for t in unit["takes"] if "fn" in t.selector}
    with open(os.path.join(VERIF, "skeletons.json"), "w") as f:
        json.dump(out, f, indent=1, sort_keys=True)
    print("recorded", sum(len(v) for v in out.values()), "function skeletons")


def load_props():
    return json.load(open(os.path.join(VERIF, "props.json")))


def units_for(prop):
    out = []
    for fn in sorted(os.listdir(UNITS)):
        if fn.endswith(".vrs"):
            p = os.path.join(UNITS, fn)
            head = open(p).read(2000)
            m = re.search(r"//@\s*serves\s+(.*)", head)
            if m and prop in m.group(1).split():
                out.append(p)
    # closure over stubs: a unit that assumes a contract pulls in the unit that verifies it
    changed = True
    while changed:
        changed = False
        for p in list(out):
            for dep in re.findall(r"stub=(\w+)", open(p).read()) + re.findall(r"//@\s*import\s+(\w+)", open(p).read()):
                dp = os.path.join(UNITS, dep + ".vrs")
                if not os.path.exists(dp):
                    raise Undecided(f"{os.path.basename(p)}: stub refers to missing unit {dep}")
                if dp not in out:
                    out.append(dp)
                    changed = True
    return out


def check_stubs(unit_paths, kept_of=None):
    """every stub must be a non-stub take with the same key, selector and contract file in the named unit
    (stubs of functions that a dependency-only unit does not need for this property are not emitted as proof obligations: skipped)"""
    problems = []
    parsed = {os.path.splitext(os.path.basename(p))[0]: parse_unit(p) for p in unit_paths}
    kept_by_name = {os.path.splitext(os.path.basename(p))[0]: k for p, k in (kept_of or {}).items()}
    for name, u in parsed.items():
        for t in u["takes"]:
            if t.stub and name in kept_by_name and t.key not in kept_by_name[name]:
                continue
            if t.stub:
                v = parsed.get(t.stub)
                ok = v and any((x.key == t.key and not x.stub and x.selector == t.selector and x.file == t.file
                                and x.sections.get("contract") == t.sections.get("contract")) for x in v["takes"])
                if not ok:
                    problems.append(f"{name}: stub {t.key} has no verified counterpart with the same contract in unit {t.stub}")
    return problems


def load_known():
    findings, fixed = [], []
    p = os.path.join(VERIF, "KNOWN_FINDINGS.txt")
    if os.path.exists(p):
        for line in open(p):
            line = line.strip()
            if line.startswith("finding:"):
                kv = dict(re.findall(r'(\w+)=("[^"]*"|\S+)', line[8:]))
                kv = {k: v.strip('"') for k, v in kv.items()}
                kv["raw"] = line
                findings.append(kv)
            elif line.startswith("fixed:"):
                fixed.append(line)
    return findings, fixed


def obligation_id(unit_name, f):
    return f"{unit_name}/{f.get('take') or f['function']}/{f['label']}"


_BOUNDED_BUILT = {}


def build_bounded():
    if "ok" in _BOUNDED_BUILT:
        return
    manifest = os.path.join(VERIF, "bounded", "Cargo.toml")
    env = dict(os.environ, CARGO_NET_OFFLINE="true")
    bp = subprocess.run(["cargo", "build", "--release", "--offline", "--manifest-path", manifest],
                        capture_output=True, text=True, env=env)
    if bp.returncode != 0:
        raise Undecided("bounded harness does not build against the working tree: " + bp.stderr[-600:])
    _BOUNDED_BUILT["ok"] = True


def run_bounded(prop, tier, seed, names=None):
    """bounded stand-ins / witness searches (native harness linking the real crates); returns list of result dicts"""
    props = load_props()
    out = []
    todo = [(n if isinstance(n, dict) else {"name": n}) for n in names] if names is not None else props.get(prop, {}).get("bounded", [])
    for b in todo:
        exe = os.path.join(VERIF, "bounded", "target", "release", "bounded")
        build_bounded()
        args = [exe, b["name"], "--tier", tier, "--seed", str(seed)]
        try:
            p = subprocess.run(args, capture_output=True, text=True, timeout=3000)
        except subprocess.TimeoutExpired:
            raise Undecided(f"bounded stand-in {b['name']} did not finish within 3000 s")
        try:
            js = json.loads(p.stdout.strip().split("\n")[-1])
        except Exception:
            raise Undecided(f"bounded stand-in {b['name']} produced no result: rc={p.returncode} {p.stderr[-400:]}")
        js["name"] = b["name"]
        if b.get("cases"):
            # a harness shared between properties labels each comparison with a case; only this property's cases count here
            js["violations_of_other_properties"] = [v for v in js.get("violations", []) if v.get("case") not in b["cases"]]
            js["violations"] = [v for v in js.get("violations", []) if v.get("case") in b["cases"]]
            js["cases"] = b["cases"]
        out.append(js)
    return out


def decide(prop, tier, seed):
    t0 = time.time()
    props = load_props()
    pinfo = props.get(prop)
    if pinfo is None:
        print(f"UNDECIDED property={prop} reason=not claimed (see MANIFEST not_applicable)")
        return 2
    ups = units_for(prop)
    # units this property only depends on (their functions are stubbed by the units that serve it): verified for the stubbed functions
    # and what those call, nothing else (reduce_unit)
    needed_of, kept_of = {}, {}
    def serves(p):
        m = re.search(r"//@\s*serves\s+(.*)", open(p).read(2000))
        return bool(m and prop in m.group(1).split())
    serving = [p for p in ups if serves(p)]
    dep_only = [p for p in ups if not serves(p)]
    # stub references of the takes that are actually verified, propagated level by level
    stub_refs = []   # (unit name referenced, take key)
    for q in serving:
        for km in re.finditer(r"//@\s*take\s+(\w+)\s*\|[^\n]*stub=(\w+)\b", open(q).read()):
            stub_refs.append((km.group(2), km.group(1)))
    pending = list(dep_only)
    progress = True
    while pending and progress:
        progress = False
        for p in list(pending):
            dep = os.path.splitext(os.path.basename(p))[0]
            # a unit can be settled once every unit that may reference it is settled
            refs_it = [q for q in pending if q != p and re.search(r"stub=" + re.escape(dep) + r"\b", open(q).read())]
            if refs_it:
                continue
            keys = {k for (d, k) in stub_refs if d == dep}
            imported = any(re.search(r"//@\s*import\s+" + re.escape(dep) + r"\b", open(q).read()) for q in ups if q != p)
            needed_of[p] = keys
            pending.remove(p)
            progress = True
            if keys:
                try:
                    u = parse_unit(p)
                    os.makedirs(BUILD, exist_ok=True)
                    run_xt(u, BUILD, tolerant=True)
                    kept = reduce_unit(u, keys)
                    kept_of[p] = kept
                    for t in u["takes"]:
                        if t.key in kept and t.stub and not t.stub.startswith("("):
                            stub_refs.append((t.stub, t.key))
                except Undecided:
                    # decided again (and reported) by the verification job below
                    for km in re.finditer(r"//@\s*take\s+(\w+)\s*\|[^\n]*stub=(\w+)\b", open(p).read()):
                        stub_refs.append((km.group(2), km.group(1)))
            elif not imported:
                needed_of[p] = None   # nothing of this unit is needed by this property
    for p in pending:   # cyclic references: fall back to the whole unit
        needed_of.pop(p, None)
    ups = [p for p in ups if not (p in needed_of and needed_of[p] is None)]
    needed_of = {p: k for p, k in needed_of.items() if k is not None}
    if not ups and not pinfo.get("bounded"):
        print(f"UNDECIDED property={prop} reason=no units")
        return 2
    os.makedirs(os.path.join(VERIF, "evidence"), exist_ok=True)
    os.makedirs(os.path.join(VERIF, "replay"), exist_ok=True)
    results, canaries, undecided = [], [], []

    def job(p, mode):
        try:
            if mode == "normal":
                return ("normal", p, verify_unit(p, tier=tier, needed=needed_of.get(p)))
            else:
                return ("canary", p, check_canaries(p, needed=needed_of.get(p)))
        except Undecided as e:
            return ("undecided", p, str(e))

    jobs = [(p, "normal") for p in ups] + [(p, "canary") for p in ups]
    with concurrent.futures.ThreadPoolExecutor(max_workers=8) as ex:
        for kind, p, r in ex.map(lambda a: job(*a), jobs):
            if kind == "normal":
                results.append(r)
            elif kind == "canary":
                canaries.append((p, r))
            else:
                undecided.append((p, r))
    mutant_results = []
    if tier == "thorough" and not undecided:
        mjobs = []
        for p in ups:
            if p in needed_of:
                continue   # mutants of a dependency-only unit are run by the checks of the properties it serves
            u = parse_unit(p)
            for m in u["mutants"]:
                mjobs.append((p, m))

        def mjob(p, m):
            try:
                r = verify_unit(p, mutant=m)
                killed = bool(r["failures"])
                return {"unit": os.path.basename(p), "mutant": m[0], "killed": killed, "rlimit": bool(r["rlimit"]),
                        "by": sorted({f["label"] for f in r["failures"]})[:4],
                        "tool_error": r["tool_errors"][0][0] if r["tool_errors"] else None}
            except Undecided as e:
                return {"unit": os.path.basename(p), "mutant": m[0], "killed": False, "tool_error": str(e)}
        with concurrent.futures.ThreadPoolExecutor(max_workers=8) as ex:
            mutant_results = list(ex.map(lambda a: mjob(*a), mjobs))
    bounded = []
    try:
        bounded = run_bounded(prop, tier, seed)
    except Undecided as e:
        undecided.append(("bounded", str(e)))

    # ---- classification
    reasons = [f"{os.path.basename(p)}: {r}" for p, r in undecided]
    reasons += check_stubs(ups, kept_of)
    for r in results:
        if r["tool_errors"]:
            reasons.append(f"{r['unit']['name']}: verus front-end error: {r['tool_errors'][0][0]}")
        if r["rlimit"]:
            reasons.append(f"{r['unit']['name']}: rlimit exceeded")
        if r["leaked_assumptions"]:
            reasons.append(f"{r['unit']['name']}: assumption inside extracted code: {r['leaked_assumptions'][0]}")
        if not r["failures"] and not r["tool_errors"] and r["verified"] == 0:
            reasons.append(f"{r['unit']['name']}: zero obligations (vacuous run)")
    for p, (expected, passed, cr) in canaries:
        if passed:
            reasons.append(f"{os.path.basename(p)}: vacuity: canaries verified (contradictory contract/axioms): {passed}")
        if not expected:
            reasons.append(f"{os.path.basename(p)}: no canaries generated")
    findings, fixed = load_known()
    violations, known_hits = [], []
    # units are shared between properties: `select` / `exclude` (regexes over unit/function/label) say which obligations
    # state THIS property. A failure outside the selection is not this property's violation, but everything proved after
    # it in the same run was proved assuming it, so the run is UNDECIDED (exit 2), never OK and never an alarm.
    sel = [re.compile(x) for x in pinfo.get("select", [])]
    exc = [re.compile(x) for x in pinfo.get("exclude", [])]
    ign = [re.compile(x) for x in pinfo.get("ignore", [])]   # functions of a shared unit outside this property's call tree
    ignored_fns = set()
    # a function whose statement structure differs from the recorded baseline (statements added / removed / reordered, loops or
    # branches changed) may have its overlay sections spliced at the wrong places: a failed proof there is only reported as a
    # violation when the witness search finds a concrete failing input; otherwise the answer is UNDECIDED (exit 2), never an alarm.
    skel = load_skeletons()
    restructured = set()
    for r in results:
        base = skel.get(r["unit"]["name"], {})
        for t in r["unit"]["takes"]:
            if t.key in base and t.text is not None and skeleton(t.text) != base[t.key]:
                restructured.add((r["unit"]["name"], t.key))
    for r in results:
        for f in r["failures"]:
            oid = obligation_id(r["unit"]["name"], f)
            if (r["unit"]["name"], f.get("take")) in restructured:
                f["restructured"] = True
            if any(x.search(oid) for x in ign):
                ignored_fns.add((r["unit"]["name"], f.get("function")))
                continue
            if (sel and not any(x.search(oid) for x in sel)) or any(x.search(oid) for x in exc):
                reasons.append(f"obligation of another property fails in a shared unit: {oid} (this property's clauses are then only proved relative to it)")
                continue
            k = [x for x in findings if x.get("property") == prop and x.get("obligation") == oid]
            if k:
                known_hits.append((k[0], f, r))
            else:
                violations.append((oid, f, r))
    for b in bounded:
        for v in b.get("violations", []):
            vid = f"bounded/{b['name']}/{v.get('case', '?')}"
            k = [x for x in findings if x.get("property") == prop and x.get("obligation") == vid]
            if k:
                known_hits.append((k[0], {"label": vid, "function": b["name"], "message": v.get("what", "")}, None))
            else:
                violations.append((vid, {"label": v.get("case"), "function": b["name"], "kind": "bounded", "message": v.get("what", ""),
                                         "witness": v, "rendered": json.dumps(v)}, None))

    # ---- witness search: a concrete failing input on the real crate (replay), DESIGN.md §3.2
    witness_runs = []
    wnames = [w for w in pinfo.get("witness", []) if (w["name"] if isinstance(w, dict) else w) not in {b.get("name") for b in bounded}]
    # the witness harnesses are cheap (seconds): they always run. A proof stands relative to its shims; a hand-written shim that stands for
    # code of /repo (found twice: Env, util::run_command - both now under contract) would otherwise hide a defect from a check whose proofs all pass.
    if wnames:
        try:
            witness_runs = run_bounded(prop, tier, seed, names=wnames)
        except Undecided as e:
            reasons.append("witness harness: " + str(e))
    def listed(check, case):   # a failing input that KNOWN_FINDINGS.txt lists is neither a new violation nor a witness for another one
        return any(x.get("property") == prop and x.get("obligation") in (f"bounded/{check}/{case}", f"witness/{check}/{case}") for x in findings)
    wit = [dict(v, check=b["name"]) for b in (witness_runs + bounded) for v in b.get("violations", []) if not listed(b["name"], v.get("case", "?"))]
    if wit:
        attached = False
        for oid, f, r in violations:
            if f.get("witness") is None:
                f["witness"] = wit[0]
                attached = True
        if not violations:
            # the proof could not be attempted or completed (or stands relative to an assumption that does not hold), but the real code fails the executable contract on a concrete input
            w = wit[0]
            vid = f"witness/{w['check']}/{w.get('case', '?')}"
            if not [x for x in findings if x.get("property") == prop and x.get("obligation") == vid]:
                violations.append((vid, {"label": w.get("case"), "function": w["check"], "kind": "witness", "message": w.get("what", ""),
                                         "witness": w, "rendered": json.dumps(w) + ("\n(undecided by the verifier: " + "; ".join(reasons)[:600] + ")" if reasons else "\n(every proof obligation was discharged: the failing input lies in code that the proofs only assume - see the evidence file's assumptions)")}, None))
    kept = []
    for oid, f, r in violations:
        if f.get("restructured") and not f.get("witness"):
            reasons.append(f"{oid}: the proof fails, but the function's statement structure differs from the recorded baseline (overlay anchors may be misaligned) and the witness search found no failing input")
        else:
            kept.append((oid, f, r))
    violations = kept
    wall = time.time() - t0
    # ---- evidence
    ev = build_evidence(prop, pinfo, tier, seed, results, canaries, mutant_results, bounded, violations, known_hits, reasons, wall)
    if ignored_fns:
        # functions of shared units that are outside this property's call tree are not its obligations
        ev["coverage"]["obligations"] -= len(ignored_fns)
        ev["coverage"]["failing_functions_outside_this_property"] = sorted(f"{u}/{fn}" for u, fn in ignored_fns)
    ev["coverage"]["witness_runs"] = witness_runs
    with open(os.path.join(VERIF, "evidence", f"{prop}.json"), "w") as f:
        json.dump(ev, f, indent=1)

    rc = 0
    if violations:
        rc = 1
        seen = set()
        for oid, f, r in violations:
            if oid in seen:
                continue
            seen.add(oid)
            rp = write_replay(prop, oid, f, r)
            tail = "" if f.get("witness") else " no-failing-input-found"
            print(f"VIOLATION property={prop} replay={rp}{tail}")
            print(f"  obligation {oid}: {f['message']}")
    elif reasons:
        rc = 2
        for x in reasons:
            print(f"UNDECIDED property={prop} reason={x}")
    for ob in sorted({k.get("obligation") for k, _, _ in known_hits}):
        k = next(k for k, _, _ in known_hits if k.get("obligation") == ob)
        print(f"KNOWN-FINDING: property={prop} {ob} {k.get('what') or k.get('class', '')}")
    if rc == 0:
        nob = ev["coverage"]["obligations"]
        print(f"OK property={prop} tier={tier} obligations={nob} discharged={ev['coverage']['discharged']} units={len(results)} "
              f"canaries={sum(len(c[1][0]) for c in canaries)} bounded={len(bounded)} wall={wall:.1f}s")
    return rc


def write_replay(prop, oid, f, r):
    safe = re.sub(r"[^A-Za-z0-9_.-]+", "_", oid)
    path = os.path.join(VERIF, "replay", f"{prop}-{safe}.json")
    take = None
    if r is not None:
        for t in r["unit"]["takes"]:
            if t.key == f.get("take"):
                take = {"file": t.file, "selector": t.selector, "lines": [t.meta.get("line_start"), t.meta.get("line_end")],
                        "sha256": t.meta.get("sha256"), "rewrites": t.meta.get("rewrites")}
    js = {"property": prop, "obligation": oid, "function": f.get("function"), "label": f.get("label"), "kind": f.get("kind"),
          "message": f.get("message"), "clause_text": f.get("clause_text"), "real_code": take,
          "verifier_output": f.get("rendered"), "generated_file": r["gen_path"] if r else None,
          "checker_cmd": r["res"]["cmd"] if r else None,
          "witness": f.get("witness"),
          "failing_input": f.get("witness") if f.get("witness") else "no-failing-input-found",
          "replay_cmd": f"python3 {os.path.join(VERIF, 'check.py')} --replay {path}"}
    with open(path, "w") as fp:
        json.dump(js, fp, indent=1)
    return path


def build_evidence(prop, pinfo, tier, seed, results, canaries, mutant_results, bounded, violations, known_hits, reasons, wall):
    functions, trusted, samples, cmds = [], [], [], []
    nob = ndis = 0
    solver_ms = 0
    rewrites = {}
    for r in results:
        u = r["unit"]
        cmds.append(r["res"]["cmd"])
        bd = r["breakdown"]
        # a property that owns only part of a shared unit (`select` over unit/function/label) counts only its own functions
        fsel = [re.compile(x) for x in pinfo.get("select", []) if not x.startswith("^bounded")]
        own_takes = None
        if fsel and not pinfo.get("ignore"):
            own = {t.key for t in u["takes"] if any(x.search(f"{u['name']}/{t.key}/") for x in fsel)}
            names = set(own)
            for t in u["takes"]:
                if t.key in own:
                    m = re.search(r"impl\s+(?:\S+\s+for\s+)?(\w+).*::\s*fn\s+(\w+)", t.selector)
                    if m and "rename=" not in t.opts:
                        names.add(f"{m.group(1)}::{m.group(2)}")
            bd_own = [b for b in bd if b.get("function", "").split("::")[-1] in names or "::".join(b.get("function", "").split("::")[-2:]) in names]
            if bd_own:
                bd = bd_own
                own_takes = own
        nob += len(bd)
        ndis += sum(1 for b in bd if b.get("success"))
        solver_ms += sum(b.get("time", 0) for b in bd)
        for t in u["takes"]:
            if own_takes is not None and t.key not in own_takes:
                continue
            if "fn" in t.selector:
                functions.append({"unit": u["name"], "real": f"{t.file}:{t.meta.get('line_start')}-{t.meta.get('line_end')}",
                                  "selector": t.selector, "sha256_of_source_lines": t.meta.get("sha256"),
                                  "rewrites": t.meta.get("rewrites"), "labelled_clauses": len(re.findall(r"\[[\w.:\-]+\]\s*$", "".join(t.sections.values()), flags=re.M))})
            for kv in (t.meta.get("rewrites") or "").split(","):
                if ":" in kv:
                    k, v = kv.split(":")
                    rewrites[k] = rewrites.get(k, 0) + int(v)
        for a in r["assumptions"]:
            s = f"{a['what']} {a['name']} ({a['origin']})"
            if s not in trusted:
                trusted.append(s)
        for x in u["trusted"]:
            if x not in trusted:
                trusted.append("stated: " + x)
        for t in u["takes"]:
            c = t.sections.get("contract", "")
            for line in c.split("\n"):
                m = LABEL_RE.search(line)
                if m and len(samples) < 12:
                    samples.append({"unit": u["name"], "function": t.selector, "label": m.group(1), "clause": line.strip()[:300]})
    trusted.append("Verus 0.2026.09.13 + Z3 (verifier and solver are trusted)")
    trusted.append("xt rewrite rules applied this run: " + ", ".join(f"{k}x{v}" for k, v in sorted(rewrites.items())) + " (DESIGN.md §2.1)")
    cov = {
        "obligations": nob, "discharged": ndis,
        "checker_cmd": " ; ".join(cmds) if cmds else "none",
        "trusted_base": trusted,
        "functions_under_contract": functions,
        "obligation_unit": "one obligation = one exec/proof function whose full VC (all its labelled clauses, callee preconditions, loop invariants, overflow checks) Verus discharged; per-function success flags from --output-json function-breakdown",
        "solver_ms": solver_ms, "backend": "Verus 0.2026.09.13 / Z3 (bundled)",
        "samples": samples or [{"note": "no labelled clause"}],
        "canaries": [{"unit": os.path.basename(p), "expected_to_fail": c[0], "wrongly_verified": c[1]} for p, c in canaries],
        "mutation_selftest": mutant_results,
        "bounded": bounded,
        "undecided_reasons": reasons,
        "known_findings_reproduced": [k.get("obligation") for k, _, _ in known_hits],
    }
    if nob == 0 or (bounded and pinfo.get("level") in ("exploration", "fault_enumeration")):
        # bounded-only property, or a property whose claimed level is the bounded exploration: exploration style keys
        ev_total = sum(b.get("evaluations", 0) for b in bounded)
        cov.update({"evaluations": ev_total, "distinct_nontrivial": sum(b.get("distinct_nontrivial", 0) for b in bounded),
                    "rule": "; ".join(b.get("rule", "") for b in bounded)})
    ev = {"property_id": prop, "tier": tier, "seed": seed, "level": pinfo.get("level", "proof"),
          "coverage": cov, "assumptions": pinfo.get("assumptions", []) + [f"bounded stand-in (not counted as proved): {b['name']} — {b.get('rule', '')}" for b in bounded],
          "wall_s": round(wall, 2), "violations": len({v[0] for v in violations})}
    return ev


# ------------------------------------------------------------------ cli
def main():
    a = sys.argv[1:]
    if not a:
        print(__doc__)
        return 2
    seed = int(os.environ.get("VERIF_SEED", "0") or 0)
    tier = os.environ.get("VERIF_TIER", "quick")
    if "--tier" in a:
        tier = a[a.index("--tier") + 1]
    if a[0] == "--record-skeletons":
        record_skeletons()
        return 0
    if a[0] == "--list":
        for fn in sorted(os.listdir(UNITS)):
            if fn.endswith(".vrs"):
                u = parse_unit(os.path.join(UNITS, fn))
                print(u["name"], "serves", u["serves"], "takes", [t.key for t in u["takes"]])
        return 0
    if a[0] == "--replay":
        js = json.load(open(a[1]))
        print(json.dumps({k: js[k] for k in ("property", "obligation", "message", "clause_text", "real_code", "failing_input")}, indent=1))
        print(js.get("verifier_output") or "")
        if js.get("witness") and js["witness"].get("replay_cmd"):
            return subprocess.call(js["witness"]["replay_cmd"], shell=True)
        return decide(js["property"], "quick", seed)
    if a[0] == "--unit":
        global BUILD
        BUILD = os.path.join(VERIF, "build")
        name = a[1]
        mode = a[a.index("--mode") + 1] if "--mode" in a else "normal"
        p = os.path.join(UNITS, name + ".vrs")
        try:
            if mode == "canary":
                expected, passed, r = check_canaries(p)
                print("canaries expected to fail:", expected)
                print("canaries that VERIFIED (bad):", passed)
                for msg, rend in r["tool_errors"]:
                    print(rend)
                return 0 if not passed else 2
            if mode == "mutants":
                u = parse_unit(p)
                bad = 0
                only = a[a.index("--only") + 1] if "--only" in a else None
                for m in u["mutants"]:
                    if only and m[0] != only:
                        continue
                    try:
                        r = verify_unit(p, mutant=m)
                    except Undecided as e:
                        print(f"mutant {m[0]}: UNDECIDED {e}")
                        bad += 1
                        continue
                    if r["tool_errors"]:
                        print(f"mutant {m[0]}: TOOL ERROR {r['tool_errors'][0][0]}")
                        bad += 1
                    elif r["failures"]:
                        print(f"mutant {m[0]}: killed by {sorted({obligation_id(u['name'], f) for f in r['failures']})}")
                    elif r["rlimit"]:
                        print(f"mutant {m[0]}: UNDECIDED (rlimit) — would be exit 2, not a violation")
                        bad += 1
                    else:
                        print(f"mutant {m[0]}: SURVIVED (weak contract)")
                        bad += 1
                return 1 if bad else 0
            r = verify_unit(p)
        except Undecided as e:
            print("UNDECIDED", e)
            return 2
        print(f"unit {name}: verified={r['verified']} errors={r['errors']} wall={r['res']['wall']:.1f}s file={r['gen_path']}")
        for msg, rend in r["tool_errors"][:6]:
            print("TOOL ERROR:", rend or msg)
        for x in r["rlimit"]:
            print("RLIMIT:", x)
        for f in r["failures"]:
            print(f"FAIL {obligation_id(r['unit']['name'], f)}: {f['message']}")
            print(f["rendered"])
        for b in r["breakdown"]:
            if "-v" in a:
                print("   ", b["function"], b.get("mode:"), b.get("time"), "ms", "ok" if b.get("success") else "FAILED")
        return 0 if not (r["failures"] or r["tool_errors"] or r["rlimit"]) else 1
    try:
        return decide(a[0], tier, seed)
    except Undecided as e:
        print(f"UNDECIDED property={a[0]} reason={e}")
        return 2
    except Exception as e:   # a defect of the driver itself is never a verdict about /repo: undecided, with the trace on stderr
        import traceback
        traceback.print_exc()
        print(f"UNDECIDED property={a[0]} reason=internal error of the checking machinery: {type(e).__name__}: {str(e)[:300]}")
        return 2


if __name__ == "__main__":
    rc = main()
    if os.environ.get("VERIF_KEEP_BUILD") != "1" and "--unit" not in sys.argv:
        shutil.rmtree(BUILD, ignore_errors=True)
    sys.exit(rc)
