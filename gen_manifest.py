#!/usr/bin/env python3
"""regenerates MANIFEST.json from props.json (claimed properties) and not_applicable.json"""
import json, os
V = os.path.dirname(os.path.abspath(__file__))
props = json.load(open(os.path.join(V, "props.json")))
na = json.load(open(os.path.join(V, "not_applicable.json")))
all_ids = [json.loads(l)["id"] for l in open(os.path.join(V, "properties.jsonl"))]
checks = []
for pid in all_ids:
    if pid not in props:
        continue
    p = props[pid]
    checks.append({
        "property_id": pid,
        "quick_cmd": f"python3 check.py {pid} --tier quick",
        "thorough_cmd": f"python3 check.py {pid} --tier thorough",
        "evidence_file": f"/verif/evidence/{pid}.json",
        "replay_cmd_template": "python3 check.py --replay {path}",
        "engine": "verus-contracts",
        "level_claimed": {"category": p.get("level", "proof"), "text": p["level_text"], "design_ref": p.get("design_ref", "DESIGN.md §4 " + pid)},
        "level_note": p["level_note"],
        "technique": p["technique"],
    })
nal = [{"property_id": k, "reason": v} for k, v in na.items() if k not in props]
missing = [i for i in all_ids if i not in props and i not in na]
assert not missing, f"properties neither claimed nor not_applicable: {missing}"
m = {
    "version": 1,
    "setup_cmd": "bash setup.sh",
    "hooks": {"guard": "heroku_libcnb_rs_verif", "enable": "none needed: xt reads the sources of the working tree; the bounded harness links the real crates through path dependencies",
              "baseline_off_cmd": "cd /repo && cargo test --workspace --no-fail-fast --offline --lib --bins --tests", "source_commits": [], "add_only": True},
    "engines": [
        {"name": "verus-contracts", "path": "/verif/check.py", "serves_properties": [c["property_id"] for c in checks],
         "kind_free_text": "contract-based deductive verification: xt (syn) extracts the real functions from /repo on every run, contracts from units/*.vrs are spliced in, Verus 0.2026.09.13 discharges every obligation; shims/*.rs are the assumed contracts on std/dependencies"},
        {"name": "bounded-standins", "path": "/verif/bounded", "serves_properties": [k for k, v in props.items() if v.get("bounded")],
         "kind_free_text": "native exhaustive enumeration to a stated bound for functions outside Verus' reach; labelled bounded, never counted as proved"},
    ],
    "checks": checks,
    "not_applicable": nal,
    "notes": "See DESIGN.md. Exit 0 = every obligation discharged; 1 = VIOLATION (named obligation failed); 2 = UNDECIDED (tool limit, lost anchor, unsupported construct) — never an alarm.",
}
json.dump(m, open(os.path.join(V, "MANIFEST.json"), "w"), indent=1)
print("MANIFEST.json:", len(checks), "checks,", len(nal), "not_applicable")
