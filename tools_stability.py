#!/usr/bin/env python3
# stability survey: every unit's generated file is verified under several solver seeds and under a different crate name;
# prints functions that fail / exceed 5 s in any run. Usage: tools_stability.py [unit ...]
import os, sys, json, subprocess, shutil, concurrent.futures as cf
sys.path.insert(0, "/verif"); os.chdir("/verif")
import check
check.BUILD = "/verif/build"
units = sys.argv[1:] or sorted(f[:-4] for f in os.listdir("/verif/units") if f.endswith(".vrs"))
jobs = []
for u in units:
    r = check.verify_unit(f"/verif/units/{u}.vrs")
    g = r["gen_path"]
    alt = f"/verif/build/zz_{u}_renamed.rs"; shutil.copy(g, alt)
    for seed in (0, 1, 2, 3, 4): jobs.append((u, g, seed))
    jobs.append((u, alt, 0)); jobs.append((u, alt, 5))
def run(j):
    u, g, seed = j
    p = subprocess.run(["verus", g, "--output-json", "--time", "--no-report-long-running", "--smt-option", f"smt.random_seed={seed}"], capture_output=True, text=True, cwd="/verif/build")
    try: js = json.loads(p.stdout[p.stdout.index("{"):])
    except Exception: return (u, g, seed, None, [])
    fb = [f for m in js["times-ms"]["smt"]["smt-run-module-times"] for f in m.get("function-breakdown", [])]
    return (u, g, seed, js["verification-results"], [(f["function"].split("::",1)[1], f["time"], f["success"]) for f in fb if not f["success"] or f["time"] > 5000])
with cf.ThreadPoolExecutor(5) as ex:
    for u, g, seed, vr, bad in ex.map(run, jobs):
        tag = "renamed" if "zz_" in g else "orig"
        print(u, tag, f"seed={seed}", (vr or {}).get("verified"), (vr or {}).get("errors"), bad, flush=True)
